#!/bin/bash
# usage: matrix.sh [seed names...]   every stored seeded change x every quick check (2 seeds in parallel, 8 procs each)
cd "$(dirname "$0")"
seeds="$@"; [ -z "$seeds" ] && seeds=$(ls seeded)
props="C01 C02 C03 C04 C05 C06 C07 C08 C09 C10 C11 C12 C13 C14 C15 C16 C17 C18 C19 C20"
echo $seeds | tr ' ' '\n' | xargs -P 2 -I{} sh -c "VERIF_PROCS=8 ./evalseed.sh seeded/{}/patch.diff {} $props 2>&1 | grep 'seed=' | cut -c1-260"
