#!/bin/bash
# usage: matrix.sh [seed names...]
# Every stored seeded change x (its own property's check + the checks of the properties
# anchored in the files it touches).  2 seeds in parallel, 8 processes each.
# PLAN_ONLY=1 prints the plan and exits.  OWN_ONLY=1: only the seed's own property (use with VERIF_SEED=n
# to measure how seed-dependent detection is).
cd "$(dirname "$0")"
seeds="$@"
[ -z "$seeds" ] && seeds=$(ls -d seeded/*/ | xargs -n1 basename)
plan() {
  s=$1
  list="${s%?}"
  files=$(grep '^+++ ' seeded/$s/patch.diff | sed 's#+++ b/##')
  [ -n "$OWN_ONLY" ] && files=""
  for f in $files; do
    case $f in
      cache.go) list="$list C01 C02 C03 C06 C07 C15 C05";;
      controller.go) list="$list C03 C04 C05 C08 C12 C14";;
      watcher.go|watch_session.go) list="$list C03 C04 C12 C14";;
      lister.go|ticker.go) list="$list C03 C13 C12 C14";;
      publisher.go|subscription.go) list="$list C05 C06 C08 C10 C11 C12 C16";;
      subscription_filter.go) list="$list C06 C07 C08 C09 C10 C11 C12";;
      monitor.go) list="$list C16 C09 C12 C10";;
      filter/*) list="$list C17 C18 C19 C07 C09 C06";;
      types/*) list="$list C19 C17 C20 C09";;
      client/*) list="$list C20";;
      join/*) list="$list C09 C12";;
    esac
  done
  echo $list | tr ' ' '\n' | sort -u | tr '\n' ' '
}
mkdir -p .work
for s in $seeds; do echo "$s $(plan $s)" | sed "s/ *$//"; done > .work/matrix.plan
if [ -n "$PLAN_ONLY" ]; then cat .work/matrix.plan; exit 0; fi
cat .work/matrix.plan | xargs -P 2 -L 1 sh -c 'n=$0; VERIF_PROCS=8 ./evalseed.sh seeded/$n/patch.diff $n "$@" 2>&1 | grep "seed=" | cut -c1-260'
