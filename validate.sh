#!/bin/bash
# validates MANIFEST.json and all evidence files against the schemas
cd "$(dirname "$0")"
python3-vt - <<'PY'
import json,glob,jsonschema
jsonschema.validate(json.load(open('MANIFEST.json')), json.load(open('/root/.vp/MANIFEST.schema.json')))
es=json.load(open('/root/.vp/EVIDENCE.schema.json'))
for f in sorted(glob.glob('evidence/*.json')):
    jsonschema.validate(json.load(open(f)), es)
    print('ok', f)
print('manifest ok')
PY
