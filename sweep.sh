#!/bin/bash
# usage: sweep.sh <tier> <seed>...   runs every check at each seed, prints one line per run
cd "$(dirname "$0")"
tier=$1; shift
for seed in "$@"; do
  for p in C01 C02 C03 C04 C05 C06 C07 C08 C09 C10 C11 C12 C13 C14 C15 C16 C17 C18 C19 C20; do
    t0=$(date +%s)
    out=$(VERIF_SEED=$seed ./check $p $tier 2>&1); rc=$?
    t1=$(date +%s)
    echo "seed=$seed $p rc=$rc wall=$((t1-t0))s $(echo "$out" | grep -E '^(VIOLATION|INCONCLUSIVE|KNOWN-FINDING)' | cut -c1-160 | head -3 | tr '\n' '|')"
    if [ $rc != 0 ]; then echo "$out" | grep -A6 -E '^(VIOLATION|INCONCLUSIVE)' | cut -c1-600 | head -40; fi
  done
done
