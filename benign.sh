#!/bin/bash
# usage: benign.sh [names...]   (default: every patch under seeded/benign)
# Runs ALL twenty quick checks against each behaviour-preserving change (scratch worktree via
# evalseed.sh, never /repo).  Expected: rc=0 on every line; anything else is a false alarm of
# the machinery (or a patch that is not benign after all) and is investigated by hand.
cd "$(dirname "$0")"
names="$@"
[ -z "$names" ] && names=$(cd seeded/benign; ls -d B*.diff R-*/ | sed 's#/$##; s#\.diff$##')
ALL="C01 C02 C03 C04 C05 C06 C07 C08 C09 C10 C11 C12 C13 C14 C15 C16 C17 C18 C19 C20"
for n in $names; do
  p=seeded/benign/$n.diff; [ -f $p ] || p=seeded/benign/$n/patch.diff
  echo "$p $n"
done | xargs -P ${BENIGN_PAR:-2} -L 1 sh -c 'VERIF_PROCS=8 ./evalseed.sh $0 $1 '"$ALL"' 2>&1 | cut -c1-400'
