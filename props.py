# Per-property configuration of the driver: which engine decides it, the
# evidence level, the rule that makes a case non-trivial, assumptions, and the
# coverage floors below which a run is inconclusive.
PROPS = {
 "C01": dict(engine="E1", level="exploration",
   rule="exhaustive part: every (state, op) pair of the 2-key x 6-version x 2-label x 4-filter universe (232 invariant states x {108 updates, 1333 lists of length<=2 x {sync, refilter to each of 4 filters}}); each pair is applied once to the real cache actor after establishing the state through two checked operations, so pairs are distinct by construction and every one is non-trivial (content compared with the reference model after it). Thorough adds, from EVERY state, a PRNG-chosen quarter of all 233 280 (list of length 3, sync / target filter) combinations (about 13.5 million further pairs) and 12 000 walks. Random walks: 200 ops each over 4-6 keys, versions<50, 4 label values, 10 filters incl. FN; distinct = distinct hash of (pre-state, filter, op).",
   assumptions=["reference model R-cache (DESIGN §4) with unspecified zones U1-U3", "go1.26.8 race-instrumented build of /repo's working tree with -tags verif"],
   floors={"quick": {"states": 232, "walks": 100}, "thorough": {"states": 232, "walks": 1000}},
   exhaustive_key="states", exhaustive_min=232,
   level_text="Exhaustive enumeration of the property's stated finite universe (every reachable invariant state x every next operation) plus seeded random walks over larger universes, each applied to the real cache actor and compared with an independent reference model; crash/wedge observed as child death or bubble deadlock. Exploration, exhaustive on the stated universe; nothing is claimed beyond the universes run.",
   design_ref="DESIGN.md 5.1, 4", technique="runtime monitoring: reference-model oracle over direct drive of the cache actor (exhaustive small universe + random walks), race detector on"),
 "C02": dict(engine="E1", level="exploration",
   rule="same cases as C01; for every (state, op) pair the returned events are replayed over the pre-state and compared with the post-state read back through List/Get; non-trivial = produced >=1 event or hit a no-op rule (redelivered, stale, unknown delete, rejected unknown, unchanged relist); pairs distinct by construction in the exhaustive part, by hash in the walks.",
   assumptions=["events returned by the cache actor are what controller/filter subscriptions publish (checked separately by C03/C06 mirrors)"],
   floors={"quick": {"states": 232, "ops-with-events": 1000, "ops-silent": 1000}, "thorough": {"states": 232}},
   exhaustive_key="states", exhaustive_min=232,
   level_text="Same executions as C01; the oracle is sequential replay of the returned events over the pre-state (well-formedness per event, equality with the post-state, silence on no-ops, at most one event per singly-listed key). Exploration, exhaustive on the stated universe.",
   design_ref="DESIGN.md 5.2, 4", technique="runtime monitoring: event-replay oracle (delta well-formedness and minimality) over the same cache executions"),
}

PROPS["C03"] = dict(engine="E4", level="exploration",
   rule="one case = one seeded scenario: real controller (filter from a family of 6 incl. FN and Not, refresh period in {1s,10s,1min}) over the fake API server; 3-6 phases of server mutations with per-call list latencies (0..3P, snapshot early or late) and per-stream watch faults (error, never connects, close after j, drop, duplicate, Status/Bookmark/unknown frames), followed by quiescence in virtual time; plus dedicated modes where the watch never delivers (blocks / errors / drops all). Non-trivial = the scenario reached at least one convergence check; distinct = distinct scenario descriptor.",
   assumptions=["fake API server follows Kubernetes list/watch semantics (monotone resourceVersion, watch delivers events after the requested version)", "virtual time via testing/synctest; runnable-goroutine order is the real scheduler's, widened by logger perturbation"],
   floors={"any": {"convergence-checks": 50, "per-list-checks": 10, "restart-version-checks": 50, "mirror-checks": 20}},
   level_text="Seeded exploration of (server history x fault sequence x schedule perturbation) with exact oracles at virtual-time quiescence: cache == accepted(server) after one relist past quiescence, cache == accepted(list k) while the watch is dead, subscriber mirror == cache, watch restarted at each list's version and never from the future.",
   design_ref="DESIGN.md 5.3", technique="runtime monitoring: convergence / mirror / restart-version oracles over a fault-injecting fake API server in virtual time, race detector on")

PROPS["C04"] = dict(engine="E5", level="fault_enumeration",
   rule="refresh period 10000h so only the watch can deliver; one case = (history of 12 seeded mutations, fault position 0..12, fault kind in {close, Watch() errors x1..3, status, status+close, bookmark, unknown-type frame, nil-object frame, close right after a burst of 1/10/60, close twice, slow reconnect, duplicate+close}, slow actor in {none, controller at 'update event', watcher at 'session event', watcher at 'session done', watch session}); quick enumerates every position x kind for one history; distinct = distinct case descriptor; non-trivial = the case reached the continuity check (cache vs server after the reconnect delay).",
   assumptions=["fake API server: a reconnect at version v is served every logged event with rv > v", "the reconnect delay is the library's 1s constant; verdict taken after (errors+5)s of virtual time, far below the refresh period"],
   floors={"any": {"continuity-checks": 300, "reconnects": 200, "reconnect-version-checks": 200}},
   level_text="Fault enumeration: every position of the history x every watch-fault kind x slow-actor choice, each run against the real controller in virtual time with relists disabled; exact oracles (cache == accepted server content within the reconnect delay, subscriber mirror == cache, reconnect version within [previous version, last delivered version]).",
   design_ref="DESIGN.md 5.4", technique="runtime monitoring with fault injection: enumerated watch faults at every history position, continuity and resume-version oracles in virtual time, race detector on")

PROPS["C14"] = dict(engine="E15", level="fault_enumeration",
   rule="list half: every failure kind {List error, non-list object, list of non-objects, object without list accessor, (nil,nil), a Status object with a nil error, a non-nil empty list returned together with an error} x k-th list for k=1..4 x seeded variants (period, latency of the failing list, random subscriber tree of 5-8 nodes of all kinds, concurrent server mutations), plus deliberate Close and context cancel; watch half: E5's enumeration of watch-fault kind x position. distinct = distinct case descriptor; non-trivial = reached the fail-stop / not-fatal verdict.",
   assumptions=["virtual time; a failing list is expected to stop the controller within (k+3) periods + latency + 10s"],
   floors={"any": {"failstop-checks": 80, "never-ready-checks": 10, "not-fatal-checks": 80}},
   level_text="Fault enumeration over failure kind x list index (x tree, period, latency variants) and watch-fault kind x position; oracles on Done/Error/Ready of the controller and every descendant.",
   design_ref="DESIGN.md 5.14", technique="runtime monitoring with fault injection: enumerated list/watch failures, lifecycle oracles (Done/Error/Ready of the whole subtree) in virtual time")

PROPS["C13"] = dict(engine="E14", level="fault_enumeration",
   rule="grid: period P in {1s,10s,1min} x list latency/P in {0,0.1,0.5,0.9,1,1.1,2,5} x result-consumption delay/P in {0,0.5,1,2} for the lister actor alone (the engine is the consumer and controls the delay exactly), and P x latency x {fast, slow filter.Accept} for the real controller with concurrent server mutations; 20 cycles of virtual time each, then shutdown at one (quick) or all (thorough) of 16 phase offsets of the list/tick cycle via stop channel / Close / context cancel. distinct = distinct grid point x close phase; non-trivial = at least one gap check and the count check were made.",
   assumptions=["virtual time (testing/synctest): timestamps are exact, independent of machine load", "modern timer-channel semantics (asynctimerchan=0); the legacy mode cannot run inside synctest"],
   floors={"any": {"gap-checks": 1000, "count-checks": 100, "lists": 2000}},
   level_text="Enumeration of the (period, latency, consumption delay) grid and of shutdown phases, with exact virtual-time oracles: at most one list in flight, next list no earlier than 0.9P and (lister) no later than 1.1P after consumption, at least floor(T/cycle)-1 lists in T, shutdown completes at once and leaves no goroutine.",
   design_ref="DESIGN.md 5.13", technique="runtime monitoring: timestamped List() calls at the fake client in synctest virtual time, cadence/concurrency/liveness-as-bounded-progress oracles, goroutine census")

PROPS["C05"] = dict(engine="E6", level="exploration",
   rule="one case = seeded scenario on the root kit (cache + root subscription + publisher, the engine is the only producer so the published sequence is known exactly): 200-600 uniquely versioned events in bursts of <=25 with a quiescence barrier between bursts; a growing tree of Subscribe/Clone to depth 3 (up to ~24 nodes), subscribers added at barriers and, from a second goroutine, in the middle of bursts; leaves closed at barriers; logger perturbation at the publisher/subscription points; 1 in 8 cases in race mode (collaborators without shared state). Plus the real controller path: trees over a controller fed by the fake server (clean watch, relists disabled), where the published sequence is the server's event log and every consumer calls Cache().Get right after each received event. distinct = distinct scenario descriptor; non-trivial = at least one leaf received events and was compared with the published sequence.",
   assumptions=["backlog stays below the event buffer (<=25 in flight), so exact delivery applies", "the root kit wires cache/subscription/publisher exactly as builder.Create does"],
   floors={"any": {"leaves": 500, "events-received": 50000, "mid-burst-subscribers": 50}},
   level_text="Seeded exploration of (tree shape x subscription time x schedule perturbation); oracle per leaf: received sequence is the contiguous, duplicate-free suffix of the published sequence starting no later than the first event whose publication began after Subscribe returned, with object identity; cache clause: Cache().Get right after each received event never returns an older version.",
   design_ref="DESIGN.md 5.5", technique="runtime monitoring: unique-id event log at every leaf vs the published sequence (exactly-once/ordering checker), race detector on")

PROPS["C06"] = dict(engine="E7", level="exploration",
   rule="one case = seeded scenario: parent is the root kit (engine-driven cache+publisher, readiness at a random step) or a real controller over the fake server; a tree of 3-13 nodes to depth 3 mixing SubscribeWithFilter / SubscribeForFilter / CloneWithFilter / CloneForFilter / plain Subscribe below filtered clones; 60-180 steps of parent mutations (label flips in and out of the filters, deletes) interleaved WITHOUT barriers with Refilter calls on random nodes (12-member family incl. FN twins, rebuilt-equal filters, back to the current filter, before parent readiness), perturbation at the filtered subscription's log points and inside Accept; a quiescence barrier about every 18 in-flight events. distinct = distinct scenario descriptor; non-trivial = at least one ready filtered node was compared with its parent.",
   assumptions=["one Refilter caller per node, so 'most recently set filter' is well defined", "mirrors are only judged in runs without a logged buffer overrun"],
   floors={"any": {"filtered-node-checks": 3000, "filtered-node-checks-nonempty": 800, "mirror-checks": 2000, "refilters": 3000}},
   level_text="Seeded exploration of (parent history x Refilter sequence x tree x schedule perturbation) with an exact oracle at every quiescence barrier: cache(n) == filter_n(cache(parent(n))) with identical versions for every ready filtered node (conjunction along clone chains follows level by level) and mirror-of-own-events == own cache for every event-bearing node.",
   design_ref="DESIGN.md 5.6", technique="runtime monitoring: snapshot comparison at synctest quiescence barriers against the reference filter applied to the parent's cache; event-replay mirrors; race detector on")

PROPS["C07"] = dict(engine="E8", level="exploration",
   rule="exhaustive: 16 parent contents (all subsets of 4 objects that the filter family distinguishes) x all ordered pairs of the 16-member filter family (equal/rebuilt-equal, overlapping, disjoint, accept-all, accept-none, FN twin, a chain of NSName filters ordered by inclusion, two composites differing only in a non-comparable child) x 4 node variants (SubscribeWithFilter, SubscribeForFilter, CloneWithFilter + plain subscriber below, CloneForFilter + plain subscriber below); quick adds an equal-filter step for a third of the pairs and, for a quarter of them, a back-to-back Refilter(f1); Refilter(f2) without settling in between, thorough runs every triple A->B->A'(rebuilt)->A''(equal). Each Refilter call between two quiescence barriers is one evaluation, all distinct by construction; every one is non-trivial (the delivered event multiset and the cache are compared with the exact expectation).",
   assumptions=["no parent events in flight (the engine is the only producer and is idle around the call)"],
   floors={"any": {"refilters-with-delta": 2000, "refilters-silent": 500, "pairs": 6400}},
   exhaustive_key="pairs", exhaustive_min=16384,
   level_text="Exhaustive enumeration of the stated finite family on the real filtered subscription / clone: events drained between two quiescence barriers around Refilter must be exactly one Delete per cached object the new filter rejects and one Create per newly accepted parent object, nothing else; cache == new filter over the content; equal filter silent; back to the earlier filter restores the view.",
   design_ref="DESIGN.md 5.7", technique="runtime monitoring: exact event-multiset oracle between synctest quiescence barriers around Refilter, exhaustive over contents x filter pairs x variants")

PROPS["C08"] = dict(engine="E9", level="exploration",
   rule="exhaustive over operation sequences: every word over {R parent becomes ready (at most once), E Refilter(equal), N Refilter(new), V parent event / parent cache change, S subscribe below} of length <=5 (quick: 2958 words; thorough <=6: 13198 words) x {SubscribeWithFilter, SubscribeForFilter, CloneWithFilter, CloneForFilter} x chain depth 1-3 x up to 4 filter palettes for the 'new' filters ({l=x, Or(...)}, {accept-all, l=x}, {childless And, l=x}, {accept-all, childless Or}), run STEPPED (a quiescence barrier and a full judgement after every step) and UNSTEPPED (no barriers, logger perturbation on, judgement at the end; quick: words of length >=4). Plus failed-first-list cases (every list failure kind at the first list, with a subscriber tree attached: nothing may become ready, receive an event or a callback). Plus controller cases: a real controller whose first list takes 0..5s while the server keeps changing: not ready (nor any subscription) while the list is in flight, the read made when Ready() fires holds the list's accepted objects (or newer), no event before Ready(). One evaluation = one word executed on a fresh root kit (or one controller case); all distinct by construction; non-trivial = the readiness automaton and content checks were evaluated for every node after the word.",
   assumptions=["the root kit only publishes after MakeReady, as a controller does", "failed-first-list clause is decided in E15 (reported under C08/ready-after-failed-first-list) and event-before-ready also by E6/E7 consumers"],
   floors={"any": {"sequences": 30000, "ready-state-checks": 100000, "content-at-readiness-checks": 20000}},
   exhaustive_key="sequences", exhaustive_min=30000,
   level_text="Exhaustive enumeration of the stated operation orders on the real filtered subscriptions/clones with three monitors per node: a consumer flagging any event received while Ready() is open, a goroutine that reads the cache the moment Ready() fires and must see the filtered parent content, and the reference readiness automaton compared at every barrier.",
   design_ref="DESIGN.md 5.8", technique="runtime monitoring: reference readiness automaton + read-at-readiness watcher + event-before-ready monitor, exhaustive over operation orders, stepped and perturbed-unstepped")

PROPS["C10"] = dict(engine="E11", level="exploration",
   rule="stream lengths L in {0,1,50,99,100,101,250,500} x subsets (7-bit mask, quick: 14 masks per L incl. none/all, thorough: all 128) of stalled consumers at fixed positions of a tree on the root kit {plain leaf under root, leaf under a clone, leaf under a filtered clone, filtered subscription, a whole clone whose subscribers never read, monitor whose handler blocks on a channel, a reader taking one event per virtual second}, next to three healthy readers (root, clone, filtered clone) paced at <=25 in flight; plus the typed path: pod.Controller over the fake server with stalled typed subscriptions (root, clone, filtered) and a typed monitor blocked in OnInitialize. distinct = (path, L, mask); non-trivial = healthy streams compared exactly and every stalled stream drained and checked afterwards.",
   assumptions=["healthy readers keep their backlog below the buffer (paced by barriers)", "overrun warnings in the log are only used as a coverage floor"],
   floors={"any": {"healthy-streams-checked": 300, "stalled-streams-checked": 200, "blocked-monitors-checked": 30, "cache-current-checks": 300}},
   level_text="Seeded exploration over (stream length x stalled-subset x position) with exact oracles: every publication completes in bounded virtual time (else bubble deadlock / timeout with goroutine dump), healthy leaves receive the exact published sequence, caches stay current at every barrier, and what a stalled consumer holds afterwards is an in-order subsequence of at least min(L, buffer) events.",
   design_ref="DESIGN.md 5.10", technique="runtime monitoring: per-leaf sequence checker (exact for healthy, in-order-subsequence + conservation lower bound for stalled), bounded-progress watchdog in virtual time")

PROPS["C11"] = dict(engine="E12", level="exploration",
   rule="seeded random trees of 8-12 nodes to depth 4 over a real controller mixing Subscribe / SubscribeWithFilter / SubscribeForFilter / Clone / CloneWithFilter / CloneForFilter / monitors; EVERY node of every tree as the victim x moment in {before ready, idle, events in flight, parked inside a Refilter, list in flight, list blocked until its context is cancelled} x mechanism (node Close(); for the root also context cancel and a failing list); quick keeps half of the (victim, moment) pairs for non-root victims. distinct = (tree, victim, moment, mechanism); non-trivial = the victim's subtree was checked closed and every node outside checked alive (and, when the root survives, functional on 20 further mutations). Joins as tree members: E10's create/close cycles for four joins run inside this check, their close-related classes (leak, hang, base stopped) reported as join:<class>.",
   assumptions=["'eventually closes' is restated as: within 3 refresh periods + 10s of virtual time"],
   floors={"any": {"subtree-nodes-checked": 500, "outside-nodes-checked": 1000, "survivor-rounds": 100}},
   level_text="Seeded exploration over (tree x victim x moment x mechanism): after closing the victim every node of its subtree has Done() closed and Events() closed after its buffered events; every other node is still open and functional (caches follow the server, filtered nodes equal filter(parent), subscribers and monitors keep receiving).",
   design_ref="DESIGN.md 5.11", technique="runtime monitoring: lifecycle oracle over every node after closing each node in turn, plus functional (convergence/mirror) oracles on the survivors, in virtual time")

PROPS["C12"] = dict(engine="E13", level="fault_enumeration",
   rule="shutdown-point enumeration: seeded scenarios (real controller over the fake server, tree of 7-14 nodes of all kinds, 14 workload steps of mutations / Refilter / tree growth / sleeps across relists) in 5 hard states {plain, lists slower than the period, Watch() blocked until cancelled alternating with closing streams, flapping watch (error/close), never ready (first list outstanding)} x trigger in {Close, Close x3, Close x5 concurrently, context cancel, list error} fired after every workload step (quick: every other) and from INSIDE the logger point number 1+k*N/K for k<K (quick K=24, thorough K=160; N = number of logger points of that scenario, measured by a dry run in the same case); 4 goroutines race Subscribe/Clone/SubscribeWithFilter/CloneForFilter with the trigger. distinct = (scenario, state, trigger, fire point); non-trivial = the run reached the post-Done census and API-call phase.",
   assumptions=["precondition of the property: the fake client's List/Watch return as soon as their context is cancelled", "bounded time = 1h of virtual time (plus 2 periods for the list-error trigger, which needs the next list to happen)"],
   floors={"any": {"terminations": 400, "post-done-api-calls": 10000, "racing-calls": 1000, "set:trigger-points": 15}},
   level_text="Fault enumeration over shutdown points: for each trigger point the oracles are Done()/Close() within bounded virtual time, empty goroutine census (kcache/go-lifecycle frames) after a quiescence barrier, every API call on every node after Done returning ErrNotRunning or a value without blocking, objects obtained late or by racing calls becoming done themselves, and no panic (a crash kills the child process and is attributed to the started case).",
   design_ref="DESIGN.md 5.12", technique="runtime monitoring with shutdown-point enumeration (logger-point failpoints), goroutine census, bounded-progress in synctest virtual time, race detector on")

PROPS["C16"] = dict(engine="E16", level="exploration",
   rule="root-kit path (engine is the only producer; every cache state and published event is known): handler duration in {instant, shorter than the producer gap, longer than the gap (backlog), blocked on a channel} x Close in {never, before ready, mid-stream at a barrier, while a callback is running, publisher stopped before ready} x monitor created before readiness / after readiness / after readiness with events already buffered in its subscription when its goroutine first runs, plus overflow runs (150-300 events, no pacing); typed path: pod.NewMonitor and pod.ToUnitary over a real typed controller and the fake server. Seeded repetitions of every combination. distinct = distinct case descriptor; non-trivial = the callback log was compared with the published stream.",
   assumptions=["exact 1:1 comparison only in runs without a logged buffer overrun; in-order-subsequence otherwise", "events published between NewMonitor and readiness do not occur (a controller never publishes before it is ready)"],
   floors={"any": {"callbacks": 3000, "exact-stream-checks": 40, "init-content-checks": 80, "no-callback-checks": 6}},
   level_text="Seeded exploration of (handler speed x close moment x creation time x typed/untyped); recording handler with enter/exit stamps: OnInitialize at most once and first, with one of the cache states between readiness and the call; callbacks 1:1 with the events published after NewMonitor returned (same type, same object pointer, same order); never two at once; none begins after Done(); none at all if the publisher stops before readiness.",
   design_ref="DESIGN.md 5.16", technique="runtime monitoring: recording monitor handler (call log, overlap counter, Done probe) vs the known published sequence and cache-state history")

PROPS["C15"] = dict(engine="E3", level="exploration", harness_race_is_violation=(r"engines\.e3(Big)?Case", "race-on-returned-slice"),
   rule="many short concurrent histories on the real cache actor (no virtual time: real parallelism, GOMAXPROCS in {2,4,8,16}): 1-2 writers issuing 10-40 writes each (generation-stamped full lists via sync/refilter with fresh, globally increasing versions, single create/update/delete events; never duplicates or malformed versions, so the sequential model is deterministic) and 1-8 readers issuing List/Get; every call stamped from one atomic counter before invoking and after the reply. Plus 'big' histories: 24 relists/refilters of 130/257/300/1000 objects alternating between distinguishable complete states (same keys with new versions, or disjoint key sets) with 2-6 readers spinning on List(): every snapshot must be exactly one complete state, not older than the last completed one, and never go backwards. distinct = distinct history descriptor; non-trivial = the history was checked by porcupine (result Ok or Illegal, not Unknown).",
   assumptions=["sequential specification = reference model R-cache restricted to its deterministic zone; a delete event's payload object is not compared", "race freedom claim covers the executions run; collaborators in this engine share no state (logger without shared state, pure filters)", "porcupine timeout 60 s per history => inconclusive"],
   floors={"any": {"histories": 300, "linearizable": 300, "reads": 30000}},
   level_text="Exploration: recorded call/return histories of concurrent List/Get/sync/update/refilter checked for linearizability (porcupine) against a whole-map sequential model, per-reader monotonicity (single-writer runs), slice-ownership scribbling by readers, and the race detector (any report whose conflicting access is in library code is a violation).",
   design_ref="DESIGN.md 5.15", technique="runtime monitoring: linearizability checking of recorded histories (porcupine) + Go race detector + ownership scribble test")

PROPS["C17"] = dict(engine="E17", level="exploration", env={"VERIF_CASE_PREFIX": "E17/equality"},
   rule="all ordered pairs of filter terms of nesting depth <=2 over the atom set {Null, All, 11 NSName forms (full, ns-only, name-only, mixed, permuted, duplicated, empty), 7 Labels, 3 Selector, 10 LabelSelector (nil, empty, matchLabels, In with permuted values, NotIn, Exists, DoesNotExist, mixed), 3 FN, 5 NodeFilter, 4 InvolvedFilter, 4 SelectorMatchFilter, 8 source sets (incl. permutations) for each of the 7 PodsFilter} with Not / And / Or (0,1,2 children; binary combinations over a core quarter of the atoms), plus seeded random pairs of depth-3 terms; for each pair FiltersEqual and Equals in both directions; when any says equal, the acceptance vectors over a 190-object universe (pods 3ns x 3names x 16 label maps x node names, services with selectors, events, a foreign kind) must be identical. Also: comparable term rebuilt => equal; workload filters under all 6 orders of 3 sources => equal; nil handling. evaluations = ordered pairs judged; distinct_nontrivial = pairs reported equal (each ordered pair occurs once) + chunk keys.",
   assumptions=["soundness is judged over the object universe above; two filters that differ only outside it would not be separated"],
   floors={"any": {"pairs": 1000000, "pairs-reported-equal": 2000, "rebuilt-checks": 1000, "permutation-checks": 100}},
   exhaustive_key="pairs", exhaustive_min=1000000,
   level_text="Exhaustive at depth <=2 over the atom set, sampled at depth 3: a reported equality is checked against the full acceptance vectors of both filters (the real Accept implementations), so an unsound equality is observed directly.",
   design_ref="DESIGN.md 5.17", technique="runtime monitoring: differential oracle between Equals/FiltersEqual and observed Accept behaviour over an object universe, exhaustive depth-2 term pairs")
PROPS["C18"] = dict(engine="E17", level="exploration", env={"VERIF_CASE_PREFIX": "E17/semantics"},
   rule="every filter term of depth <=2 over the atom set (see C17; workload atoms excluded, they are C19's) plus seeded random depth-3 terms, each built through the public constructors and evaluated on every object of the 190-object universe; Accept must equal an independently written evaluator (own label-selector matching, NSName wildcards, boolean connectives), a second pass in reverse object order must give the same answers. One evaluation = one (term, object) pair, all distinct; every pair is non-trivial.",
   assumptions=["NSName entries with both fields empty are outside the contract and are not generated"],
   floors={"any": {"accept-evaluations": 120000, "composite-terms": 500}},
   level_text="Exhaustive at depth <=2 x the whole object universe, sampled at depth 3, against an independent reference evaluator; purity by repeated, reordered evaluation.",
   design_ref="DESIGN.md 5.18", technique="runtime monitoring: reference-evaluator differential over (term, object) pairs")
PROPS["C19"] = dict(engine="E17", level="exploration", env={"VERIF_CASE_PREFIX": "E17/own"},
   rule="for each of the 7 workload kinds: the empty set, every single workload, every ordered pair, and every ordered triple over a third of the workloads, drawn from 2 namespaces x selector universe {none, empty, single label, two labels, (label-selector kinds:) In, In permuted, NotIn, Exists, DoesNotExist, mixed} x template labels {none, l=x}; every candidate pod over 3 namespaces x 16 label maps; PodsFilter(...).Accept(pod) vs the ownership predicate (a non-nil but empty selector on a non-service workload is accepted under both readings). Ingress: 24 ingresses (default backend, 0-3 rule paths, empty names, rules without HTTP) singly and in pairs x 36 services. Node / involved-object / selector-match filters x every object incl. foreign kinds. One evaluation = one (workload set, candidate) pair, all distinct. Disagreements are classified <kind>:accepts-cross-namespace / accepts-nonmatching / rejects-owned.",
   assumptions=["reference ownership predicate R-own (DESIGN 4)"],
   floors={"any": {"ownership-evaluations": 500000, "accepting-evaluations": 50000}},
   level_text="Exhaustive over the stated small universes against an independently written ownership predicate, with classified disagreements so that a known finding is matched by class and any other disagreement of the same filter is still a violation.",
   design_ref="DESIGN.md 5.19", technique="runtime monitoring: reference-predicate differential over (workload set, candidate object) pairs, exhaustive small universe")

PROPS["C09"] = dict(engine="E10", level="exploration",
   rule="for each of the 8 generated joins (service/rc/rs/deployment/daemonset/statefulset/job -> pods, ingress -> services), the double join IngressPods and one ...With join with a custom rule (pod name == service name): typed base controllers over one fake server per kind; 5-6 create/close cycles of the join over the long-lived bases; in each cycle 25-50 seeded source / destination (/ intermediate) mutations run WITHOUT barriers (sources appear, change selector, disappear; labels move pods in and out; two namespaces), with logger perturbation and virtual sleeps across relists; a quiescence barrier every 15 steps. distinct = (join, seed, n); non-trivial = at least one content check with a non-empty expected selection.",
   assumptions=["the expected selection is computed with the join's own selection rule (the library's filter function over the CURRENT source cache), so join plumbing is judged separately from filter semantics (C19)", "goroutine census: frames in github.com/boz/kcache or go-lifecycle"],
   floors={"any": {"join-content-checks": 800, "join-content-checks-nonempty": 300, "join-mirror-checks": 300, "close-cycles": 300, "ready-order-checks": 200}},
   level_text="Seeded exploration over (join x source/destination histories x timing); oracles at quiescence barriers: join cache == destination objects selected by the current source objects, mirror of the join's own events == its cache, ready only after both bases; after Close(): Done() closes, the goroutine census returns exactly to the pre-join baseline in every cycle, bases keep running and a fresh join over them is again correct.",
   design_ref="DESIGN.md 5.9", technique="runtime monitoring: snapshot oracle at synctest quiescence barriers, event-replay mirror, goroutine-census conservation across create/close cycles")

PROPS["C20"] = dict(engine="E18", level="exploration",
   rule="(a) differential: for each of the 12 typed packages (facade code instantiated from one harness template), a typed controller and an untyped kcache controller on ONE fake server run the same seeded scenario over the whole typed surface (Subscribe, SubscribeWithFilter, SubscribeForFilter, Clone, CloneWithFilter, CloneForFilter, subscribers below each clone, Refilter, Cache().List/Get, NewMonitor on root and on a filtered clone, a stalled subscriber for overflow, Close of a subscription / clone / monitor / root, or cancellation of the constructor's context); 30-60 steps of mutations and refilters with a quiescence barrier and a full comparison after EVERY step (cache content restricted to the type, event sequences, callback sequences, readiness, doneness), plus variants injecting a foreign-typed object through the watch stream and through a heterogeneous list. (b) REST recorder: every typed NewController over an in-memory http.RoundTripper for namespace in {all, default, kube-system}; recorded list and watch requests vs an independently written table. distinct = distinct case descriptor; non-trivial = reached at least one comparison / request check. The eight generated joins and the double join run E10's scenarios (create/close cycles, content, mirror, census) inside this check as well, reported as join:<class>.",
   assumptions=["sequence equality is demanded only in clean segments (no relist within the run, no watch faults), where both sequences are determined by the server log", "client-go is trusted to build and issue the requests it is asked for", "NOT decided: textual equality of generated*.go with the instantiated templates (a property of program text; DESIGN 5.20c / 9)"],
   floors={"any": {"cache-comparisons": 4000, "stream-comparisons": 4000, "callback-comparisons": 1000, "request-checks": 34, "overflow-checks": 40, "foreign-objects-in-untyped-cache": 50}},
   level_text="Differential runtime monitoring of every typed package against the untyped core on identical inputs, over the whole typed API surface, with exact comparison at quiescence barriers; request-level recording of what each typed client lists and watches. The source-text clause of the property is outside what executions can observe and is not claimed.",
   design_ref="DESIGN.md 5.20", technique="runtime monitoring: typed-vs-untyped differential oracle on one fake API server + HTTP request recorder at an in-memory transport")

ENGINES = {
 "E1": dict(path="harness/engines/e01_cache_test.go", kind="direct drive of the cache actor vs reference model R-cache; exhaustive small universe + random walks"),
 "E4": dict(path="harness/engines/e04_converge_test.go", kind="real controller over fault-injecting fake API server; convergence oracles at virtual-time quiescence"),
 "E5": dict(path="harness/engines/e05_watch_test.go", kind="real controller, relists disabled, enumerated watch faults at every position"),
 "E15": dict(path="harness/engines/e15_failstop_test.go", kind="enumerated list failures at the k-th list with a subscriber tree attached; watch failures via E5 cases"),
 "E14": dict(path="harness/engines/e14_cadence_test.go", kind="lister alone and real controller over the (period, latency, consumption) grid in virtual time"),
 "E6": dict(path="harness/engines/e06_pubsub_test.go", kind="root kit + Subscribe/Clone trees; per-leaf sequence checker"),
 "E7": dict(path="harness/engines/e07_filtered_test.go", kind="filtered subscription/clone trees over root kit or real controller; snapshot oracle at barriers"),
 "E8": dict(path="harness/engines/e08_refilter_test.go", kind="exhaustive Refilter delta check over contents x filter pairs x node variants"),
 "E9": dict(path="harness/engines/e09_ready_test.go", kind="exhaustive readiness-order enumeration on filtered subscriptions/clones"),
 "E11": dict(path="harness/engines/e11_slow_test.go", kind="stalled/slow consumers at every tree position; healthy vs stalled stream oracles"),
 "E12": dict(path="harness/engines/e12_cascade_test.go", kind="every node of random trees closed in turn at several moments; subtree/complement lifecycle oracle"),
 "E13": dict(path="harness/engines/e13_termination_test.go", kind="shutdown-point enumeration over seeded workloads; census and post-Done API oracles"),
 "E16": dict(path="harness/engines/e16_monitor_test.go", kind="recording monitor handlers over root kit and typed controllers"),
 "E3": dict(path="harness/engines/e03_linear_test.go", kind="concurrent readers/writers on the cache actor; porcupine linearizability check; race detector"),
 "E17": dict(path="harness/engines/e17_filters_test.go", kind="filter terms vs reference evaluator / acceptance vectors / ownership predicate (no goroutines)"),
 "E10": dict(path="harness/engines/e10_joins_test.go", kind="typed base controllers + all joins; content/mirror/census oracles over create/close cycles"),
 "E18": dict(path="harness/engines/e18_typed_test.go", kind="typed vs untyped differential over generated facades; REST request recorder"),
}
NA = {}
# ---- workloads added while the fifth round of seeded changes was worked through (DESIGN.md 12.4)
_R5 = {
 "C03": " Plus: a relist released by the harness at 'disconnect + reconnect delay - d' for a sweep of d with the watcher held at its log points (nothing older than the list may be applied, no Watch call may go back behind the list's version once restarted there); a Status frame arriving while the relist resets the watcher (the controller must keep following the server).",
 "C04": " Plus: fault kinds burst+BOOKMARK(last sent version)+close; a relist completing while a reconnect delay is pending followed much later by another disconnect (events after it must arrive within the reconnect delay, no relist in between).",
 "C05": " Plus: a lagging sibling that drains its whole backlog while the library handles its overrun (held open by the logger); accept-all FILTERED subscribers/clones created while another goroutine publishes (at quiescence their view equals the publisher's).",
 "C06": " Plus: the readiness transition of pre-built filtered chains (3 levels, filtered subscriptions at every level) repeated 40 times per case.",
 "C08": " Plus: the controller stopped (cancel/Close) from inside each logger point and each of its own context consultations around 'first list applied' with every kind of subscriber pre-built: a ready controller's filter has seen every listed object; a node that reports Ready() and answers a read without error answers with its synced content.",
 "C09": " Plus: sibling joins over the same base controllers created and closed while events are in flight.",
 "C10": " Plus: a stalled consumer closed by its owner in the middle of its overrun.",
 "C11": " Plus: the root taken down from inside each logger point / context consultation of a scenario cut around 'first list applied -> ready' (tree incl. monitors pre-built): every descendant done, every Events() closed.",
 "C12": " Plus: state 'watch-frames' (Status, unknown type, nil object, bookmark, foreign object frames); owners closing leaves and Refilter calls racing with the shutdown while events are in flight; the context cancelled from inside each of the library's own consultations of it.",
 "C13": " Plus: the context cancelled from inside every consultation the lister/controller makes of it (incl. at the tick), creation on a dead context, and a list failing with context.Canceled/DeadlineExceeded (bare, wrapped) while nobody shuts down: stopped or still listing, never alive without relisting.",
 "C14": " Plus: list errors context.Canceled / DeadlineExceeded (bare and wrapped) while nobody is shutting down.",
 "C15": " Plus: Get() readers on the big relists (generations never decrease across keys and calls); the cache's own filter cancelling the context at object k of a relist while readers keep reading (a read may fail, a successful one is a complete generation); cache churn: 120 caches per case die while being read, a long-lived one is read throughout, every object stamped with its cache (no result from another cache).",
 "C16": " Plus: siblings (subscriptions, monitors, filtered subscriptions) of long-lived monitors closed right before events go out; Close()/publisher stop during a slow OnInitialize with a burst in flight (Done() closing while a callback is still running counts as a callback after Done).",
}
for _p, _t in _R5.items():
    PROPS[_p]["rule"] += _t

# ---- workloads added while rounds 6 and 7 were worked through (DESIGN.md 12.4)
_R67 = {
 "C01": " Plus: walks over caches of 1100-2000 objects (mass deletions, 1-6% survivors, a third of them stale), version bases beyond 2^31/2^32/2^53, keys without a namespace; a concurrent reader while a slow-filter sync/refilter is in progress (every read = content before or after), also with the context cancelled by the filter at object k.",
 "C03": " Plus: collections of 520-2500 objects behind a server that honours limit/continue with a watch that delivers nothing.",
 "C04": " Plus: connect errors of the timeout class and API status errors (401/410/429/503); a relist consumed at the expiry of a pending reconnect delay (later events must still arrive within the delay); a stream ending while 50-100 events wait in the watcher's buffer for longer than the reconnect delay.",
 "C05": " Plus: a publisher whose own cache has a label filter (objects leave by relabelling), consumers reading their cache through Get and List alternately on every event; mid-stream Refilter to a fresh accept-all function filter.",
 "C06": " Plus: deferred nodes whose first filter arrives after 120-320 parent events.",
 "C07": " Plus: objects with versions beyond 32/53 bits; Refilter below a filtered clone that has just dropped an object; an NSName filter built repeatedly from a slice the caller keeps and edits; an equal filter immediately followed by a different one with the node held at its log point.",
 "C09": " Plus: a destination watch that loses a third of its events (relist-discovered changes); three failed join creations over a stopped destination leave the goroutine census unchanged.",
 "C10": " Plus: overrun, a virtual stall of 50 ms to 10 min with events trickling in, resume (siblings exact, resumed consumer gets what is published once it has room).",
 "C11": " Plus: the cascade after an overrun (lagging consumer draining during the overrun; oversized refilter batch for an idle reader, then close); fatal list errors of the context.Canceled / DeadlineExceeded classes.",
 "C12": " Plus: state 'slow-connect' (a cancellation during connect is answered with the established stream; streams never Stop()ped count as zombies); Close/cancel aimed at the expiry of a pending reconnect delay (sweep in quarter holds); join scenarios (create/close cycles, failed creations) for leak and hang classes.",
 "C13": " Plus: refresh periods of 3-146 years; four builders configured in one order and created in another, each relisting at its own (or the default) period.",
 "C14": " Plus: a failing relist released at the expiry of a pending reconnect delay.",
 "C16": " Plus: events queued in a monitor's subscription before a readiness that never comes; the core handler builder reused after Create(); monitors on a real controller whose first list fails (7 kinds).",
 "C17": " Plus: atoms with empty-string label values, selectors not built from a label set (NewSelector, Everything, Nothing, parsed), label keys/values containing ',' '=', cluster-scoped NSName entries, prefix namespaces; every ordered pair of selector-like atoms under And/Or; PodsFilter rebuilt 3x from the caller's own slice; sources whose glued namespace+name collide, in all orders.",
 "C18": " Plus: the same extended atoms and universe (cluster-scoped objects, prefix namespaces, empty label values, odd characters), every ordered pair of selector-like atoms under And/Or.",
 "C19": " Plus: resource-backend ingress paths in first/middle/last position; events about cluster-scoped objects stored in a namespace; empty-string selector values.",
 "C20": " Plus: typed handler builders reused after Create() compared with the core builder; subscriptions closed with 1-130 unread events on both sides (goroutine census taken before anybody drains them).",
}
for _p, _t in _R67.items():
    PROPS[_p]["rule"] += _t

# ---- round 8
_R8 = {
 "C01": " Plus: one cache through 66200 synchronisations (probes around 2^15 and 2^16).",
 "C02": " Plus: UIDs that differ between versions of one key.",
 "C04": " Plus: a reconnect may not resume behind a version the subscriber had already received.",
 "C05": " Plus: relist-detected deletions and same-version deletes reaching a subscriber below an accept-all filtered clone.",
 "C07": " Plus: a parent history (in-place update, relabel out of / back into the current filter) before the refilter under test.",
 "C11": " Plus: close/cancel/list error after the watch was re-established through the reconnect delay; a burst immediately followed by the root's stop (every subscriber gets the whole tail before Events() closes).",
 "C13": " Plus: bursts of 150 watch events against a watcher held for milliseconds, across relists.",
 "C14": " Plus: Close() while a slow filter keeps the controller inside a list, a relist or a watch event.",
 "C17": " Plus: closures of one function literal with different captures, > and < selectors, 15 sources sharing names across two namespaces, arguments changed after construction.",
 "C18": " Plus: > and < selectors, arguments changed after construction.",
 "C19": " Plus: workloads scaled to zero replicas.",
}
for _p, _t in _R8.items():
    PROPS[_p]["rule"] += _t


# ---- follow-up session: the round-8 changes that their own check had missed (DESIGN.md 12.4)
_R9 = {
 "C01": " Plus: 3-8 goroutines calling List/Get flat out (real time) against ONE writer whose reference states are known: a read that began after operation i returned and ended before operation j started returns the content after one of the prefixes i..j; the writer's own List right after its operation returns exactly that prefix's content.",
 "C02": " Plus: in the concurrent-readers cases a SECOND cache with its own writer is updated at the same time; every batch an operation returns holds exactly the events of that operation on that cache.",
 "C03": " Plus: a relist that turns up a difference of 2-90 objects followed AT ONCE (changes placed right after the list's snapshot, delivered by the watch session opened at the list's version) by watch events for objects of that difference: replaying a subscriber's stream gives the controller's cache; an object learnt from the watch whose Delete the stream loses is gone after the next completed list whatever that list's ordinal (both parities, names re-used).",
 "C06": " Plus: NSName filters built (spread form) from ONE slice the caller keeps editing and re-using, on a filtered subscription and a filtered clone, with parent events flowing between the edits and the Refilters: the node mirrors the selection of the ids its filter was BUILT from.",
 "C09": " Plus: joins created while the SOURCE controller's first list is still in flight and 130-190 destination events (deletes and re-creations among them) pass before the join can become ready: not ready before both bases are, then exactly the selection, then following both.",
 "C10": " Plus: a never-reading filtered subscription holding H<100 events when a Refilter produces a batch that only partly fits: it ends with min(H+T,100) events (the H earlier ones in order, then distinct events of the batch), a reading sibling gets all of a batch that fits its emptied buffer. Plus: a consumer with a full buffer takes everything it holds while the library is still reporting its overrun (moment held open by the logger); the 1-3 events published after that, its buffer empty, all arrive in order.",
 "C12": " Plus: the user's context is of a hand-written type (own Done channel, opaque to package context) and is never cancelled: after Close / Close x3 / a failing list the census - taken BEFORE that context is cancelled and including the watcher goroutines package context runs for contexts derived from such a parent - is empty.",
}
for _p, _t in _R9.items():
    PROPS[_p]["rule"] += _t


# ---- coverage floors (quick tier): half of what a quick run at seed 1 observes; counts that are
# deterministic by construction (states, pairs of C07, request-checks) are exact; throughput-dependent
# counters of the real-time stress cases (big-snapshots, stress-typed-reads) are 5%.  A thorough run must
# reach at least the same.  Generated by mkfloors.py from the evidence files; not tuned per seed.
FLOORS_QUICK = {
 "C01": {
  "concurrent-reader-cases": 6,
  "concurrent-reads": 17255,
  "long-lived-probes": 73,
  "reads-during-operation": 82,
  "states": 232,
  "walks": 80,
  "writer-reads-after-own-write": 4500
 },
 "C02": {
  "batches-checked-with-another-cache-emitting": 718,
  "ops-silent": 390930,
  "ops-with-events": 1980214,
  "states": 232
 },
 "C03": {
  "big-collection-cases": 3,
  "changes-right-after-a-list-snapshot": 413,
  "convergence-checks": 428,
  "drain-all-phases": 51,
  "lost-delete-checks": 108,
  "mirror-checks": 364,
  "per-list-checks": 121,
  "post-list-checks": 324,
  "relist-at-reconnect-expiry-cases": 60,
  "relist-then-watch-mirror-checks": 144,
  "restart-version-checks": 5470,
  "status-at-relist-cases": 36
 },
 "C04": {
  "continuity-checks": 666,
  "reconnect-version-checks": 1010,
  "reconnects": 1010,
  "relist-at-reconnect-expiry-cases": 60,
  "relist-during-retry-cases": 8
 },
 "C05": {
  "burst-then-stop-cases": 40,
  "controller-path-leaves": 281,
  "events-received": 366448,
  "filtered-root-cases": 12,
  "leaves": 1837,
  "mid-burst-closes": 533,
  "mid-burst-subscribers": 719,
  "mid-stream-filtered-subscriber-checks": 12344,
  "stale-wire-events": 2362
 },
 "C06": {
  "caller-slice-mirror-checks": 140,
  "filtered-node-checks": 35889,
  "filtered-node-checks-nonempty": 22036,
  "late-first-filter-cases": 12,
  "mid-flow-closes": 709,
  "mirror-checks": 9405,
  "ready-moments": 640,
  "refilters": 6466
 },
 "C07": {
  "back-to-back-refilters": 4096,
  "caller-slice-refilters": 10,
  "pairs": 16384,
  "refilters-after-parent-history": 5760,
  "refilters-below-filtered-parent": 256,
  "refilters-silent": 6160,
  "refilters-with-delta": 5104
 },
 "C08": {
  "content-at-readiness-checks": 62019,
  "controller-readiness-cases": 60,
  "directed-stale-inflight-attempts": 50,
  "failed-first-list-cases": 10,
  "not-ready-while-listing-checks": 48,
  "ready-state-checks": 668820,
  "sequences": 64224,
  "stopped-around-first-list-cases": 48
 },
 "C09": {
  "close-cycles": 220,
  "empty-source-joins": 58,
  "join-content-checks": 630,
  "join-content-checks-nonempty": 498,
  "join-context-cancelled-early": 100,
  "join-mirror-checks": 410,
  "late-destination-joins": 9,
  "late-source-joins": 13,
  "lossy-destination-watch-cases": 10,
  "ready-order-checks": 220,
  "sibling-joins-closed-mid-stream": 831
 },
 "C10": {
  "batches-that-partly-fit": 16,
  "blocked-monitors-checked": 44,
  "cache-current-checks": 586,
  "catch-up-checks": 18,
  "healthy-streams-checked": 232,
  "partial-batch-checks": 20,
  "resumed-consumer-checks": 48,
  "slow-streams-checked": 47,
  "stalled-consumers-closed-mid-overrun": 8,
  "stalled-refilter-checks": 19,
  "stalled-streams-checked": 171,
  "stress-typed-cases": 8,
  "stress-typed-reads": 1192
 },
 "C11": {
  "outside-nodes-checked": 813,
  "overrun-then-close-cases": 6,
  "point-triggered-shutdowns": 288,
  "subtree-nodes-checked": 3363,
  "survivor-rounds": 87
 },
 "C12": {
  "opaque-ctx-censuses": 130,
  "post-done-api-calls": 51802,
  "racing-calls": 4599,
  "set:trigger-points": 23,
  "stops-at-reconnect-expiry": 48,
  "terminations": 789
 },
 "C13": {
  "count-checks": 87,
  "ctx-consultation-shutdowns": 162,
  "gap-checks": 1566,
  "list-error-cases": 6,
  "lists": 2066
 },
 "C14": {
  "failstop-checks": 81,
  "never-ready-checks": 13,
  "not-fatal-checks": 84,
  "stops-at-reconnect-expiry": 24
 },
 "C15": {
  "big-gets": 3034,
  "big-histories": 24,
  "big-snapshots": 6629,
  "cancelled-mid-relist": 12,
  "churn-caches": 960,
  "histories": 160,
  "linearizable": 160,
  "reads": 11419
 },
 "C16": {
  "callbacks": 6726,
  "close-during-initialize-rounds": 225,
  "exact-stream-checks": 69,
  "init-content-checks": 67,
  "no-callback-checks": 36,
  "siblings-closed-mid-stream": 536
 },
 "C17": {
  "pairs": 65920800,
  "pairs-reported-equal": 21215,
  "permutation-checks": 614,
  "rebuilt-checks": 29394
 },
 "C18": {
  "accept-evaluations": 1273590,
  "composite-terms": 4610
 },
 "C19": {
  "accepting-evaluations": 596567,
  "ownership-evaluations": 2194408
 },
 "C20": {
  "cache-comparisons": 4624,
  "callback-comparisons": 2318,
  "closed-with-unread-events-checks": 18,
  "context-cancel-lifecycle-checks": 6,
  "foreign-objects-in-untyped-cache": 1282,
  "overflow-checks": 48,
  "request-checks": 34,
  "stream-comparisons": 6936
 }
}
for _p, _f in FLOORS_QUICK.items():
    PROPS[_p]["floors"] = {"any": _f}
