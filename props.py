# Per-property configuration of the driver: which engine decides it, the
# evidence level, the rule that makes a case non-trivial, assumptions, and the
# coverage floors below which a run is inconclusive.
PROPS = {
 "C01": dict(engine="E1", level="exploration",
   rule="exhaustive part: every (state, op) pair of the 2-key x 6-version x 2-label x 4-filter universe (232 invariant states x {108 updates, 1333 lists of length<=2 x {sync, refilter to each of 4 filters}}); each pair is applied once to the real cache actor after establishing the state through two checked operations, so pairs are distinct by construction and every one is non-trivial (content compared with the reference model after it). Random walks: 200 ops each over 4-6 keys, versions<50, 4 label values, 10 filters incl. FN; distinct = distinct hash of (pre-state, filter, op).",
   assumptions=["reference model R-cache (DESIGN §4) with unspecified zones U1-U3", "go1.26.8 race-instrumented build of /repo's working tree with -tags verif"],
   floors={"quick": {"states": 232, "walks": 100}, "thorough": {"states": 232, "walks": 1000}},
   exhaustive_key="states", exhaustive_min=232,
   level_text="Exhaustive enumeration of the property's stated finite universe (every reachable invariant state x every next operation) plus seeded random walks over larger universes, each applied to the real cache actor and compared with an independent reference model; crash/wedge observed as child death or bubble deadlock. Exploration, exhaustive on the stated universe; nothing is claimed beyond the universes run.",
   design_ref="DESIGN.md 5.1, 4", technique="runtime monitoring: reference-model oracle over direct drive of the cache actor (exhaustive small universe + random walks), race detector on"),
 "C02": dict(engine="E1", level="exploration",
   rule="same cases as C01; for every (state, op) pair the returned events are replayed over the pre-state and compared with the post-state read back through List/Get; non-trivial = produced >=1 event or hit a no-op rule (redelivered, stale, unknown delete, rejected unknown, unchanged relist); pairs distinct by construction in the exhaustive part, by hash in the walks.",
   assumptions=["events returned by the cache actor are what controller/filter subscriptions publish (checked separately by C03/C06 mirrors)"],
   floors={"quick": {"states": 232, "ops-with-events": 1000, "ops-silent": 1000}, "thorough": {"states": 232}},
   exhaustive_key="states", exhaustive_min=232,
   level_text="Same executions as C01; the oracle is sequential replay of the returned events over the pre-state (well-formedness per event, equality with the post-state, silence on no-ops, at most one event per singly-listed key). Exploration, exhaustive on the stated universe.",
   design_ref="DESIGN.md 5.2, 4", technique="runtime monitoring: event-replay oracle (delta well-formedness and minimality) over the same cache executions"),
}

PROPS["C03"] = dict(engine="E4", level="exploration",
   rule="one case = one seeded scenario: real controller (filter from a family of 6 incl. FN and Not, refresh period in {1s,10s,1min}) over the fake API server; 3-6 phases of server mutations with per-call list latencies (0..3P, snapshot early or late) and per-stream watch faults (error, never connects, close after j, drop, duplicate, Status/Bookmark/unknown frames), followed by quiescence in virtual time; plus dedicated modes where the watch never delivers (blocks / errors / drops all). Non-trivial = the scenario reached at least one convergence check; distinct = distinct scenario descriptor.",
   assumptions=["fake API server follows Kubernetes list/watch semantics (monotone resourceVersion, watch delivers events after the requested version)", "virtual time via testing/synctest; runnable-goroutine order is the real scheduler's, widened by logger perturbation"],
   floors={"any": {"convergence-checks": 50, "per-list-checks": 10, "restart-version-checks": 50, "mirror-checks": 20}},
   level_text="Seeded exploration of (server history x fault sequence x schedule perturbation) with exact oracles at virtual-time quiescence: cache == accepted(server) after one relist past quiescence, cache == accepted(list k) while the watch is dead, subscriber mirror == cache, watch restarted at each list's version and never from the future.",
   design_ref="DESIGN.md 5.3", technique="runtime monitoring: convergence / mirror / restart-version oracles over a fault-injecting fake API server in virtual time, race detector on")

PROPS["C04"] = dict(engine="E5", level="fault_enumeration",
   rule="refresh period 10000h so only the watch can deliver; one case = (history of 12 seeded mutations, fault position 0..12, fault kind in {close, Watch() errors x1..3, status, status+close, bookmark, unknown-type frame, nil-object frame, close right after a burst of 1/10/60, close twice, slow reconnect, duplicate+close}, slow actor in {none, controller at 'update event', watcher at 'session event', watcher at 'session done', watch session}); quick enumerates every position x kind for one history; distinct = distinct case descriptor; non-trivial = the case reached the continuity check (cache vs server after the reconnect delay).",
   assumptions=["fake API server: a reconnect at version v is served every logged event with rv > v", "the reconnect delay is the library's 1s constant; verdict taken after (errors+5)s of virtual time, far below the refresh period"],
   floors={"any": {"continuity-checks": 300, "reconnects": 200, "reconnect-version-checks": 200}},
   level_text="Fault enumeration: every position of the history x every watch-fault kind x slow-actor choice, each run against the real controller in virtual time with relists disabled; exact oracles (cache == accepted server content within the reconnect delay, subscriber mirror == cache, reconnect version within [previous version, last delivered version]).",
   design_ref="DESIGN.md 5.4", technique="runtime monitoring with fault injection: enumerated watch faults at every history position, continuity and resume-version oracles in virtual time, race detector on")

PROPS["C14"] = dict(engine="E15", level="fault_enumeration",
   rule="list half: every failure kind {List error, non-list object, list of non-objects, object without list accessor, (nil,nil)} x k-th list for k=1..4 x seeded variants (period, latency of the failing list, random subscriber tree of 5-8 nodes of all kinds, concurrent server mutations), plus deliberate Close and context cancel; watch half: E5's enumeration of watch-fault kind x position. distinct = distinct case descriptor; non-trivial = reached the fail-stop / not-fatal verdict.",
   assumptions=["virtual time; a failing list is expected to stop the controller within (k+3) periods + latency + 10s"],
   floors={"any": {"failstop-checks": 80, "never-ready-checks": 10, "not-fatal-checks": 80}},
   level_text="Fault enumeration over failure kind x list index (x tree, period, latency variants) and watch-fault kind x position; oracles on Done/Error/Ready of the controller and every descendant.",
   design_ref="DESIGN.md 5.14", technique="runtime monitoring with fault injection: enumerated list/watch failures, lifecycle oracles (Done/Error/Ready of the whole subtree) in virtual time")

PROPS["C13"] = dict(engine="E14", level="fault_enumeration",
   rule="grid: period P in {1s,10s,1min} x list latency/P in {0,0.1,0.5,0.9,1,1.1,2,5} x result-consumption delay/P in {0,0.5,1,2} for the lister actor alone (the engine is the consumer and controls the delay exactly), and P x latency x {fast, slow filter.Accept} for the real controller with concurrent server mutations; 20 cycles of virtual time each, then shutdown at one (quick) or all (thorough) of 16 phase offsets of the list/tick cycle via stop channel / Close / context cancel. distinct = distinct grid point x close phase; non-trivial = at least one gap check and the count check were made.",
   assumptions=["virtual time (testing/synctest): timestamps are exact, independent of machine load", "modern timer-channel semantics (asynctimerchan=0); the legacy mode cannot run inside synctest"],
   floors={"any": {"gap-checks": 1000, "count-checks": 100, "lists": 2000}},
   level_text="Enumeration of the (period, latency, consumption delay) grid and of shutdown phases, with exact virtual-time oracles: at most one list in flight, next list no earlier than 0.9P and (lister) no later than 1.1P after consumption, at least floor(T/cycle)-1 lists in T, shutdown completes at once and leaves no goroutine.",
   design_ref="DESIGN.md 5.13", technique="runtime monitoring: timestamped List() calls at the fake client in synctest virtual time, cadence/concurrency/liveness-as-bounded-progress oracles, goroutine census")

PROPS["C05"] = dict(engine="E6", level="exploration",
   rule="one case = seeded scenario on the root kit (cache + root subscription + publisher, the engine is the only producer so the published sequence is known exactly): 200-600 uniquely versioned events in bursts of <=25 with a quiescence barrier between bursts; a growing tree of Subscribe/Clone to depth 3 (up to ~24 nodes), subscribers added at barriers and, from a second goroutine, in the middle of bursts; leaves closed at barriers; logger perturbation at the publisher/subscription points; 1 in 8 cases in race mode (collaborators without shared state). distinct = distinct scenario descriptor; non-trivial = at least one leaf received events and was compared with the published sequence.",
   assumptions=["backlog stays below the event buffer (<=25 in flight), so exact delivery applies", "the root kit wires cache/subscription/publisher exactly as builder.Create does"],
   floors={"any": {"leaves": 500, "events-received": 50000, "mid-burst-subscribers": 50}},
   level_text="Seeded exploration of (tree shape x subscription time x schedule perturbation); oracle per leaf: received sequence is the contiguous, duplicate-free suffix of the published sequence starting no later than the first event whose publication began after Subscribe returned, with object identity; cache clause: Cache().Get right after each received event never returns an older version.",
   design_ref="DESIGN.md 5.5", technique="runtime monitoring: unique-id event log at every leaf vs the published sequence (exactly-once/ordering checker), race detector on")

PROPS["C06"] = dict(engine="E7", level="exploration",
   rule="one case = seeded scenario: parent is the root kit (engine-driven cache+publisher, readiness at a random step) or a real controller over the fake server; a tree of 3-13 nodes to depth 3 mixing SubscribeWithFilter / SubscribeForFilter / CloneWithFilter / CloneForFilter / plain Subscribe below filtered clones; 60-180 steps of parent mutations (label flips in and out of the filters, deletes) interleaved WITHOUT barriers with Refilter calls on random nodes (12-member family incl. FN twins, rebuilt-equal filters, back to the current filter, before parent readiness), perturbation at the filtered subscription's log points and inside Accept; a quiescence barrier about every 18 in-flight events. distinct = distinct scenario descriptor; non-trivial = at least one ready filtered node was compared with its parent.",
   assumptions=["one Refilter caller per node, so 'most recently set filter' is well defined", "mirrors are only judged in runs without a logged buffer overrun"],
   floors={"any": {"filtered-node-checks": 3000, "filtered-node-checks-nonempty": 800, "mirror-checks": 2000, "refilters": 3000}},
   level_text="Seeded exploration of (parent history x Refilter sequence x tree x schedule perturbation) with an exact oracle at every quiescence barrier: cache(n) == filter_n(cache(parent(n))) with identical versions for every ready filtered node (conjunction along clone chains follows level by level) and mirror-of-own-events == own cache for every event-bearing node.",
   design_ref="DESIGN.md 5.6", technique="runtime monitoring: snapshot comparison at synctest quiescence barriers against the reference filter applied to the parent's cache; event-replay mirrors; race detector on")

PROPS["C07"] = dict(engine="E8", level="exploration",
   rule="exhaustive: 16 parent contents (all subsets of 4 objects that the filter family distinguishes) x all ordered pairs of the 10-member filter family (equal/rebuilt-equal, overlapping, disjoint, accept-all, accept-none, FN twin) x 4 node variants (SubscribeWithFilter, SubscribeForFilter, CloneWithFilter + plain subscriber below, CloneForFilter + plain subscriber below); quick adds an equal-filter step for a third of the pairs, thorough runs every triple A->B->A'(rebuilt)->A''(equal). Each Refilter call between two quiescence barriers is one evaluation, all distinct by construction; every one is non-trivial (the delivered event multiset and the cache are compared with the exact expectation).",
   assumptions=["no parent events in flight (the engine is the only producer and is idle around the call)"],
   floors={"any": {"refilters-with-delta": 2000, "refilters-silent": 500, "pairs": 6400}},
   exhaustive_key="pairs", exhaustive_min=6400,
   level_text="Exhaustive enumeration of the stated finite family on the real filtered subscription / clone: events drained between two quiescence barriers around Refilter must be exactly one Delete per cached object the new filter rejects and one Create per newly accepted parent object, nothing else; cache == new filter over the content; equal filter silent; back to the earlier filter restores the view.",
   design_ref="DESIGN.md 5.7", technique="runtime monitoring: exact event-multiset oracle between synctest quiescence barriers around Refilter, exhaustive over contents x filter pairs x variants")

PROPS["C08"] = dict(engine="E9", level="exploration",
   rule="exhaustive over operation sequences: every word over {R parent becomes ready (at most once), E Refilter(equal), N Refilter(new), V parent event / parent cache change, S subscribe below} of length <=5 (quick: 2958 words; thorough <=6: 13198 words) x {SubscribeWithFilter, SubscribeForFilter, CloneWithFilter, CloneForFilter} x chain depth 1-3, run STEPPED (a quiescence barrier and a full judgement after every step) and UNSTEPPED (no barriers, logger perturbation on, judgement at the end; quick: words of length >=4). One evaluation = one word executed on a fresh root kit; all distinct by construction; non-trivial = the readiness automaton and content checks were evaluated for every node after the word.",
   assumptions=["the root kit only publishes after MakeReady, as a controller does", "failed-first-list clause is decided in E15 (reported under C08/ready-after-failed-first-list) and event-before-ready also by E6/E7 consumers"],
   floors={"any": {"sequences": 30000, "ready-state-checks": 100000, "content-at-readiness-checks": 20000}},
   exhaustive_key="sequences", exhaustive_min=30000,
   level_text="Exhaustive enumeration of the stated operation orders on the real filtered subscriptions/clones with three monitors per node: a consumer flagging any event received while Ready() is open, a goroutine that reads the cache the moment Ready() fires and must see the filtered parent content, and the reference readiness automaton compared at every barrier.",
   design_ref="DESIGN.md 5.8", technique="runtime monitoring: reference readiness automaton + read-at-readiness watcher + event-before-ready monitor, exhaustive over operation orders, stepped and perturbed-unstepped")

PROPS["C10"] = dict(engine="E11", level="exploration",
   rule="stream lengths L in {0,1,50,99,100,101,250,500} x subsets (7-bit mask, quick: 14 masks per L incl. none/all, thorough: all 128) of stalled consumers at fixed positions of a tree on the root kit {plain leaf under root, leaf under a clone, leaf under a filtered clone, filtered subscription, a whole clone whose subscribers never read, monitor whose handler blocks on a channel, a reader taking one event per virtual second}, next to three healthy readers (root, clone, filtered clone) paced at <=25 in flight; plus the typed path: pod.Controller over the fake server with stalled typed subscriptions (root, clone, filtered) and a typed monitor blocked in OnInitialize. distinct = (path, L, mask); non-trivial = healthy streams compared exactly and every stalled stream drained and checked afterwards.",
   assumptions=["healthy readers keep their backlog below the buffer (paced by barriers)", "overrun warnings in the log are only used as a coverage floor"],
   floors={"any": {"healthy-streams-checked": 300, "stalled-streams-checked": 200, "blocked-monitors-checked": 30, "cache-current-checks": 300, "overruns": 100}},
   level_text="Seeded exploration over (stream length x stalled-subset x position) with exact oracles: every publication completes in bounded virtual time (else bubble deadlock / timeout with goroutine dump), healthy leaves receive the exact published sequence, caches stay current at every barrier, and what a stalled consumer holds afterwards is an in-order subsequence of at least min(L, buffer) events.",
   design_ref="DESIGN.md 5.10", technique="runtime monitoring: per-leaf sequence checker (exact for healthy, in-order-subsequence + conservation lower bound for stalled), bounded-progress watchdog in virtual time")

PROPS["C11"] = dict(engine="E12", level="exploration",
   rule="seeded random trees of 8-12 nodes to depth 4 over a real controller mixing Subscribe / SubscribeWithFilter / SubscribeForFilter / Clone / CloneWithFilter / CloneForFilter / monitors; EVERY node of every tree as the victim x moment in {before ready, idle, events in flight, parked inside a Refilter, list in flight} x mechanism (node Close(); for the root also context cancel and a failing list); quick keeps half of the (victim, moment) pairs for non-root victims. distinct = (tree, victim, moment, mechanism); non-trivial = the victim's subtree was checked closed and every node outside checked alive (and, when the root survives, functional on 20 further mutations). Joins as tree members are exercised in E10 (C09 close clause).",
   assumptions=["'eventually closes' is restated as: within 3 refresh periods + 10s of virtual time"],
   floors={"any": {"subtree-nodes-checked": 500, "outside-nodes-checked": 1000, "survivor-rounds": 100}},
   level_text="Seeded exploration over (tree x victim x moment x mechanism): after closing the victim every node of its subtree has Done() closed and Events() closed after its buffered events; every other node is still open and functional (caches follow the server, filtered nodes equal filter(parent), subscribers and monitors keep receiving).",
   design_ref="DESIGN.md 5.11", technique="runtime monitoring: lifecycle oracle over every node after closing each node in turn, plus functional (convergence/mirror) oracles on the survivors, in virtual time")

PROPS["C12"] = dict(engine="E13", level="fault_enumeration",
   rule="shutdown-point enumeration: seeded scenarios (real controller over the fake server, tree of 7-14 nodes of all kinds, 14 workload steps of mutations / Refilter / tree growth / sleeps across relists) in 5 hard states {plain, lists slower than the period, Watch() blocked until cancelled alternating with closing streams, flapping watch (error/close), never ready (first list outstanding)} x trigger in {Close, Close x3, Close x5 concurrently, context cancel, list error} fired after every workload step (quick: every other) and from INSIDE the logger point number 1+k*N/K for k<K (quick K=24, thorough K=160; N = number of logger points of that scenario, measured by a dry run in the same case); 4 goroutines race Subscribe/Clone/SubscribeWithFilter/CloneForFilter with the trigger. distinct = (scenario, state, trigger, fire point); non-trivial = the run reached the post-Done census and API-call phase.",
   assumptions=["precondition of the property: the fake client's List/Watch return as soon as their context is cancelled", "bounded time = 1h of virtual time (plus 2 periods for the list-error trigger, which needs the next list to happen)"],
   floors={"any": {"terminations": 400, "post-done-api-calls": 10000, "racing-calls": 1000, "set:trigger-points": 15}},
   level_text="Fault enumeration over shutdown points: for each trigger point the oracles are Done()/Close() within bounded virtual time, empty goroutine census (kcache/go-lifecycle frames) after a quiescence barrier, every API call on every node after Done returning ErrNotRunning or a value without blocking, objects obtained late or by racing calls becoming done themselves, and no panic (a crash kills the child process and is attributed to the started case).",
   design_ref="DESIGN.md 5.12", technique="runtime monitoring with shutdown-point enumeration (logger-point failpoints), goroutine census, bounded-progress in synctest virtual time, race detector on")

ENGINES = {
 "E1": dict(path="harness/engines/e01_cache_test.go", kind="direct drive of the cache actor vs reference model R-cache; exhaustive small universe + random walks"),
 "E4": dict(path="harness/engines/e04_converge_test.go", kind="real controller over fault-injecting fake API server; convergence oracles at virtual-time quiescence"),
 "E5": dict(path="harness/engines/e05_watch_test.go", kind="real controller, relists disabled, enumerated watch faults at every position"),
 "E15": dict(path="harness/engines/e15_failstop_test.go", kind="enumerated list failures at the k-th list with a subscriber tree attached; watch failures via E5 cases"),
 "E14": dict(path="harness/engines/e14_cadence_test.go", kind="lister alone and real controller over the (period, latency, consumption) grid in virtual time"),
 "E6": dict(path="harness/engines/e06_pubsub_test.go", kind="root kit + Subscribe/Clone trees; per-leaf sequence checker"),
 "E7": dict(path="harness/engines/e07_filtered_test.go", kind="filtered subscription/clone trees over root kit or real controller; snapshot oracle at barriers"),
 "E8": dict(path="harness/engines/e08_refilter_test.go", kind="exhaustive Refilter delta check over contents x filter pairs x node variants"),
 "E9": dict(path="harness/engines/e09_ready_test.go", kind="exhaustive readiness-order enumeration on filtered subscriptions/clones"),
 "E11": dict(path="harness/engines/e11_slow_test.go", kind="stalled/slow consumers at every tree position; healthy vs stalled stream oracles"),
 "E12": dict(path="harness/engines/e12_cascade_test.go", kind="every node of random trees closed in turn at several moments; subtree/complement lifecycle oracle"),
 "E13": dict(path="harness/engines/e13_termination_test.go", kind="shutdown-point enumeration over seeded workloads; census and post-Done API oracles"),
}
NA = {}
