#!/bin/bash
# usage: confirmseed2.sh <seed dir> <name> [dest for flat demo dir]
# like confirmseed.sh but places demo/<subdir>/... at <subdir>/ ("root" -> repo root) when demo/ has subdirectories
export GOFLAGS=-mod=mod GOPROXY=off GOSUMDB=off GOTOOLCHAIN=local
sd=$(readlink -f "$1"); name=$2; dest=${3:-.}
wt=/tmp/confirm-$name
git -C /repo worktree remove --force $wt >/dev/null 2>&1
git -C /repo worktree add -q $wt HEAD || exit 2
pkgs=""
placed=""
if [ -n "$(find $sd/demo -mindepth 1 -maxdepth 1 -type d)" ]; then
  for d in $(cd $sd/demo && find . -type f -name '*.go' | sed 's#^\./##'); do
    rel=$(dirname $d); tgt=$rel; case $rel in root|root/*) tgt=${rel/root/.};; .) tgt=$dest;; esac
    mkdir -p $wt/$tgt; cp $sd/demo/$d $wt/$tgt/; placed="$placed $wt/$tgt/$(basename $d)"; pkgs="$pkgs ./$tgt"
  done
else
  for f in $(cd $sd/demo && ls); do cp $sd/demo/$f $wt/$dest/; placed="$placed $wt/$dest/$f"; done; pkgs="./$dest"
fi
pkgs=$(echo $pkgs | tr ' ' '\n' | sort -u | tr '\n' ' ')
cd $wt
demo_unchanged=$(env ${ASYNC:+KCACHE_TEST_ASYNC_DURATION=$ASYNC} go test -vet=off -count=1 $pkgs -run 'Seed|seed|SEED' 2>&1 | grep -E "^(--- FAIL|FAIL|ok|panic)" | head -4 | tr '\n' ' ')
git apply $sd/patch.diff || { echo "$name PATCH-DOES-NOT-APPLY"; cd /; git -C /repo worktree remove --force $wt; exit 2; }
demo_changed=$(env ${ASYNC:+KCACHE_TEST_ASYNC_DURATION=$ASYNC} go test -vet=off -count=1 $pkgs -run 'Seed|seed|SEED' 2>&1 | grep -E "^(--- FAIL|FAIL|ok|panic)" | head -4 | tr '\n' ' ')
rm -f $placed
suite=$(env ${ASYNC:+KCACHE_TEST_ASYNC_DURATION=$ASYNC} go test -vet=off -count=1 ./... 2>&1 | grep -E "^(FAIL|---|panic)" | head -5 | tr '\n' ' ')
go1.26.8 build -tags verif ./... >/dev/null 2>&1 && tagbuild=ok || tagbuild=FAILS
echo "$name | unchanged: $demo_unchanged | with change: $demo_changed | suite failures: [${suite}] | tag build: $tagbuild"
cd /; git -C /repo worktree remove --force $wt
