#!/bin/bash
# usage: evalseed.sh <patch.diff> <name> <prop> [<prop>...]
# Development aid: applies a seeded change to a scratch worktree of /repo (never to /repo
# itself), runs the given checks' quick tier against that worktree and removes the worktree.
patch=$(readlink -f "$1"); name=$2; shift 2
wt=/tmp/evalseed-$name
git -C /repo worktree remove --force $wt >/dev/null 2>&1
git -C /repo worktree add -q $wt HEAD || exit 2
if ! git -C $wt apply "$patch"; then echo "PATCH-DOES-NOT-APPLY $name"; git -C /repo worktree remove --force $wt; exit 2; fi
cd "$(dirname "$0")"
for p in "$@"; do
  out=$(VERIF_REPO=$wt VERIF_WORK_SUFFIX=-$name VERIF_PROCS=${VERIF_PROCS:-8} ./check $p ${TIER:-quick} 2>&1); rc=$?
  echo "seed=$name check=$p rc=$rc $(echo "$out" | grep -E '^  class=' | cut -c1-150 | head -4 | tr '\n' '|')"
  [ $rc = 2 ] && echo "$out" | grep INCONCLUSIVE | head -3 | cut -c1-300
done
git -C /repo worktree remove --force $wt
rm -rf /verif/.work/*-$name
# every patched worktree leaves its own link outputs in the Go build cache: trim it before the disk fills up
avail=$(df --output=avail -BG / | tail -1 | tr -dc '0-9')
if [ "${avail:-100}" -lt 25 ]; then GOFLAGS=-mod=mod go clean -cache >/dev/null 2>&1; fi
