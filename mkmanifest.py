#!/usr/bin/env python3
"""Regenerates MANIFEST.json from props.py (single source of truth)."""
import json, os, subprocess
from props import PROPS, ENGINES, NA
here = os.path.dirname(os.path.abspath(__file__))
ids = [json.loads(l)["id"] for l in open(os.path.join(here, "properties.jsonl"))]
hooks_commits = open(os.path.join(here, "HOOK_COMMITS.txt")).read().split()
m = {
 "version": 1,
 "setup_cmd": "./setup.sh",
 "hooks": {
  "guard": "verif",
  "enable": "Go build tag: checks build /repo's working tree with `go1.26.8 test -c -race -tags verif` from /verif/harness (go.mod: replace github.com/boz/kcache => /repo)",
  "baseline_off_cmd": "./baseline_off.sh",
  "source_commits": hooks_commits,
  "add_only": True,
 },
 "engines": [dict(name=k, path=v["path"], serves_properties=sorted(p for p in PROPS if PROPS[p]["engine"] == k), kind_free_text=v["kind"]) for k, v in ENGINES.items() if any(PROPS[p]["engine"] == k for p in PROPS)],
 "checks": [],
 "not_applicable": [],
 "notes": "Family: runtime monitoring and sanitizers. Every check runs the real code (race-instrumented, inside testing/synctest virtual-time bubbles where timing matters) under generated workloads and decides with an oracle over what was observed at the API boundary. Exit 0 held / 1 violation / 2 inconclusive. KNOWN_FINDINGS.txt lists recorded and fixed defects.",
}
for pid in ids:
    if pid in PROPS:
        c = PROPS[pid]
        m["checks"].append({
            "property_id": pid,
            "quick_cmd": "./check %s quick" % pid,
            "thorough_cmd": "./check %s thorough" % pid,
            "evidence_file": "evidence/%s.json" % pid,
            "replay_cmd_template": "./check %s --replay {path}" % pid,
            "engine": c["engine"],
            "level_claimed": {"category": c["level"], "text": c["level_text"], "design_ref": c["design_ref"]},
            "level_note": "; ".join(c.get("assumptions", [])),
            "technique": c["technique"],
        })
    else:
        m["not_applicable"].append({"property_id": pid, "reason": NA.get(pid, "check under construction in this session: not claimed until its engine is registered")})
json.dump(m, open(os.path.join(here, "MANIFEST.json"), "w"), indent=1)
print("checks:", len(m["checks"]), "not_applicable:", len(m["not_applicable"]))
