#!/bin/bash
# usage: import8.sh <prop> ...   copies /tmp/wt8-<prop>/_seed/* to seeded/<prop><letter>
cd "$(dirname "$0")"
for p in "$@"; do
  for src in /tmp/wt8-$p/_seed/*/; do
    v=$(basename $src)
    [ -f $src/patch.diff ] || continue
    dst=seeded/$p$v; rm -rf $dst; mkdir -p $dst; cp -r $src/* $dst/
    echo "imported $dst"
  done
done
