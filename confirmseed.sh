#!/bin/bash
# usage: confirmseed.sh <seed dir with patch.diff, demo/, notes.md> <name> [demo-dest-dir-relative-to-repo-root]
# Confirms, in a scratch worktree: demo passes unchanged; with the patch the suite passes and the demo fails.
export GOFLAGS=-mod=mod GOPROXY=off GOSUMDB=off GOTOOLCHAIN=local
sd=$(readlink -f "$1"); name=$2; dest=${3:-.}
wt=/tmp/confirm-$name
git -C /repo worktree remove --force $wt >/dev/null 2>&1
git -C /repo worktree add -q $wt HEAD || exit 2
cp -r $sd/demo/. $wt/$dest/
pkgs="./$dest"
cd $wt
demo_unchanged=$(go test -vet=off -count=1 $pkgs -run 'Seed|seed|SEED' 2>&1 | tail -3 | tr '\n' ' ')
git apply $sd/patch.diff || { echo "$name PATCH-DOES-NOT-APPLY"; cd /; git -C /repo worktree remove --force $wt; exit 2; }
demo_changed=$(go test -vet=off -count=1 $pkgs -run 'Seed|seed|SEED' 2>&1 | grep -E "^(--- FAIL|FAIL|ok|panic)" | head -3 | tr '\n' ' ')
rm -f $(cd $sd/demo && find . -type f | sed "s#^\./#$wt/$dest/#")
suite=$(go test -vet=off -count=1 ./... 2>&1 | grep -E "^(FAIL|---|panic)" | head -5 | tr '\n' ' ')
go1.26.8 build -tags verif ./... >/dev/null 2>&1 && tagbuild=ok || tagbuild=FAILS
echo "$name | demo on unchanged: $demo_unchanged | demo with change: $demo_changed | suite with change failures: [${suite}] | verif-tag build: $tagbuild"
cd /; git -C /repo worktree remove --force $wt
