#!/bin/bash
# Runs the repository's pinned suite with the verif guard OFF (default toolchain, no tag).
export GOFLAGS=-mod=mod GOPROXY=off GOSUMDB=off GOTOOLCHAIN=local
cd /repo || exit 2
out=$(go test -mod=mod -json -vet=off -count=1 -timeout 25m ./... 2>&1)
rc=$?
pass=$(echo "$out" | grep -c '"Action":"pass","Package":"[^"]*","Test":"Test[^/"]*"')
fail=$(echo "$out" | grep -c '"Action":"fail","Package":"[^"]*","Test":"Test[^/"]*"')
echo "baseline (guard off): top-level tests passed=$pass failed=$fail go-test-exit=$rc"
if [ "$fail" != "0" ] || [ "$rc" != "0" ]; then echo "$out" | grep '"Action":"fail"' | head; exit 1; fi
[ "$pass" -ge 75 ] || exit 1
