#!/bin/bash
# usage: import5.sh <prop> ...   copies /tmp/wt5-<prop>/_seed/{I,J} to seeded/<prop>{I,J}, confirms and evaluates them
cd "$(dirname "$0")"
for p in "$@"; do
  for v in I J; do
    src=/tmp/wt5-$p/_seed/$v
    [ -d $src ] || { echo "missing $src"; continue; }
    dst=seeded/$p$v; rm -rf $dst; mkdir -p $dst; cp -r $src/* $dst/
    grep -h -i "copied to\|copy.*to \|placed\|must be placed\|go test" $dst/notes.md | head -3 | cut -c1-200
  done
done
