#!/usr/bin/env python3
"""Regenerates the table of DESIGN.md section 12.5 from props.py."""
import props
d = open('DESIGN.md').read()
a = d.index('| id | engine | level | cases and what makes one non-trivial |')
b = d.index('### 12.6 Budgets observed')
rows = ['| id | engine | level | cases and what makes one non-trivial |', '|----|--------|-------|--------------------------------------|']
for pid, cfg in sorted(props.PROPS.items()):
    rows.append('| %s | %s | %s | %s |' % (pid, cfg['engine'], cfg['level'], cfg['rule'].replace('|', '\\|').replace('\n', ' ')))
d = d[:a] + '\n'.join(rows) + '\n\n' + d[b:]
open('DESIGN.md', 'w').write(d)
print('12.5 regenerated:', len(rows) - 2, 'rows')
