#!/bin/bash
# usage: import9.sh <prop> ...   copies /tmp/ag9-<prop>/_seed/* to seeded/<prop>O (follow-up session, one change per agent)
cd "$(dirname "$0")"
for p in "$@"; do
  src=/tmp/ag9-$p/_seed
  [ -f $src/patch.diff ] || { echo "no seed for $p"; continue; }
  dst=seeded/${p}O; rm -rf $dst; mkdir -p $dst; cp -r $src/* $dst/
  echo "imported $dst"
done
