#!/bin/bash
# Offline setup: warm the build cache by building the race-instrumented engine binary once.
set -e
export GOFLAGS=-mod=mod GOPROXY=off GOSUMDB=off GOTOOLCHAIN=local
cd "$(dirname "$0")"
mkdir -p .work evidence replays
cd harness
go1.26.8 test -c -race -tags verif -vet=off -o ../.work/engines.setup.test ./engines
rm -f ../.work/engines.setup.test
echo "setup ok"
