package engines

// E10: joins select exactly the destination objects matched by current source
// objects (C09).

import (
	"errors"
	"context"
	"fmt"
	"strconv"
	"time"

	logutil "github.com/boz/go-logutil"
	"github.com/boz/kcache"
	"github.com/boz/kcache/filter"
	"github.com/boz/kcache/join"
	"github.com/boz/kcache/types/daemonset"
	"github.com/boz/kcache/types/deployment"
	"github.com/boz/kcache/types/ingress"
	"github.com/boz/kcache/types/job"
	"github.com/boz/kcache/types/pod"
	"github.com/boz/kcache/types/replicaset"
	"github.com/boz/kcache/types/replicationcontroller"
	"github.com/boz/kcache/types/service"
	"github.com/boz/kcache/types/statefulset"
	appsv1 "k8s.io/api/apps/v1"
	batchv1 "k8s.io/api/batch/v1"
	corev1 "k8s.io/api/core/v1"
	netv1beta1 "k8s.io/api/networking/v1beta1"
	metav1 "k8s.io/apimachinery/pkg/apis/meta/v1"
	"k8s.io/apimachinery/pkg/runtime"

	"verifharness/kit"
)

var e10Joins = []string{"service-pod", "rc-pod", "rs-pod", "deployment-pod", "daemonset-pod", "statefulset-pod", "job-pod", "ingress-service", "ingress-pods", "service-pod-with"}

// joinRig holds the base controllers and one live join.
type joinRig struct {
	kind   string
	core   *kit.Core
	log    logutil.Log
	ctx    context.Context
	cancel context.CancelFunc

	srcSrv, dstSrv, midSrv *kit.Server
	closeBases             []func()
	basesDone              []<-chan struct{}
	basesReady             []<-chan struct{}

	// per join instance
	mkJoin func() (joinInst, error)
	// dstBase: index (into closeBases/basesDone) of the join's destination controller
	dstBase int
	// joinCtx, when set, is the context handed to the next join (instead of g.ctx)
	joinCtx context.Context
	// emptySrc deletes every source object
	emptySrc func()
	// expected content of the join given the current caches
	expect func() (kit.Snap, error)
	// random source mutation
	mutSrc func(rng *kit.Rng) string
	mutDst func(rng *kit.Rng) string
	mutMid func(rng *kit.Rng) string
}

type joinInst struct {
	ready <-chan struct{}
	done  <-chan struct{}
	close func()
	list  func() (kit.Snap, error)
	// subscribe returns an untyped view of the join's own event stream
	subscribe func() (<-chan kcache.Event, func(), error)
}

func podInst(c pod.Controller) joinInst {
	return joinInst{ready: c.Ready(), done: c.Done(), close: c.Close,
		list: func() (kit.Snap, error) {
			l, err := c.Cache().List()
			if err != nil {
				return nil, err
			}
			s := kit.Snap{}
			for _, p := range l {
				s[kit.Key(p)] = p.ResourceVersion
			}
			return s, nil
		},
		subscribe: func() (<-chan kcache.Event, func(), error) {
			sub, err := c.Subscribe()
			if err != nil {
				return nil, nil, err
			}
			ch := make(chan kcache.Event)
			go func() {
				defer close(ch)
				for e := range sub.Events() {
					ch <- kcache.NewEvent(e.Type(), e.Resource())
				}
			}()
			return ch, sub.Close, nil
		}}
}

func svcInst(c service.Controller) joinInst {
	return joinInst{ready: c.Ready(), done: c.Done(), close: c.Close,
		list: func() (kit.Snap, error) {
			l, err := c.Cache().List()
			if err != nil {
				return nil, err
			}
			s := kit.Snap{}
			for _, p := range l {
				s[kit.Key(p)] = p.ResourceVersion
			}
			return s, nil
		},
		subscribe: func() (<-chan kcache.Event, func(), error) {
			sub, err := c.Subscribe()
			if err != nil {
				return nil, nil, err
			}
			ch := make(chan kcache.Event)
			go func() {
				defer close(ch)
				for e := range sub.Events() {
					ch <- kcache.NewEvent(e.Type(), e.Resource())
				}
			}()
			return ch, sub.Close, nil
		}}
}

var e10Labels = []map[string]string{nil, {"l": "x"}, {"l": "y"}, {"l": "x", "m": "1"}, {"m": "1"}, {"m": "2"}}
var e10Sels = []map[string]string{nil, {"l": "x"}, {"l": "y"}, {"m": "1"}, {"l": "x", "m": "1"}}
var e10NS = []string{"n0", "n1"}
var e10Names = []string{"a", "b", "c"}

func applyFilter(f filter.Filter, objs []metav1.Object) kit.Snap {
	s := kit.Snap{}
	for _, o := range objs {
		if f.Accept(o) {
			s[kit.Key(o)] = o.GetResourceVersion()
		}
	}
	return s
}

func podObjs(l []*corev1.Pod) []metav1.Object {
	out := make([]metav1.Object, len(l))
	for i, p := range l {
		out[i] = p
	}
	return out
}

func lselOf(m map[string]string, rng *kit.Rng) *metav1.LabelSelector {
	if m == nil {
		if rng.Bool() {
			return nil
		}
		return &metav1.LabelSelector{MatchExpressions: []metav1.LabelSelectorRequirement{{Key: "l", Operator: metav1.LabelSelectorOpIn, Values: []string{"x", "y"}}}}
	}
	return &metav1.LabelSelector{MatchLabels: m}
}

func (g *joinRig) jctx() context.Context {
	if g.joinCtx != nil {
		return g.joinCtx
	}
	return g.ctx
}

// e10LossyDst (set by a case around newJoinRig; cases run one at a time): the
// destination's watch loses about a third of its events, so that deletions and
// changes are only discovered by the destination controller's relists.
var e10LossyDst bool

// e10SrcLatency (same convention): the source controller's FIRST list takes
// that long, so a join can be created over a source that is not ready yet.
var e10SrcLatency time.Duration

func e10ApplySrcLatency(srv *kit.Server) {
	if d := e10SrcLatency; d > 0 {
		srv.ListPlan = func(i int) kit.ListFault {
			if i == 1 {
				return kit.ListFault{Latency: d}
			}
			return kit.ListFault{}
		}
	}
}

func newJoinRig(kind string, core *kit.Core, dstLatency time.Duration) (*joinRig, error) {
	g := &joinRig{kind: kind, core: core, log: kit.NewLog(core)}
	base, cancel := context.WithCancel(context.Background())
	g.ctx, g.cancel = logutil.NewContext(base, g.log), cancel
	g.dstSrv = kit.NewServer(core, func() runtime.Object { return &corev1.PodList{} })
	if dstLatency > 0 {
		g.dstSrv.ListPlan = func(i int) kit.ListFault {
			if i == 1 {
				return kit.ListFault{Latency: dstLatency}
			}
			return kit.ListFault{}
		}
	}
	if e10LossyDst {
		g.dstSrv.WatchPlan = func(int) kit.WatchFault {
			f := kit.NoWatchFault()
			f.Drop = map[int]bool{}
			for i := 2; i < 2000; i += 3 {
				f.Drop[i] = true
			}
			return f
		}
	}
	pods, err := pod.BuildController(g.ctx, g.log, g.dstSrv)
	if err != nil {
		return nil, err
	}
	g.closeBases = append(g.closeBases, pods.Close)
	g.basesDone = append(g.basesDone, pods.Done())
	g.basesReady = append(g.basesReady, pods.Ready())
	g.mutDst = func(rng *kit.Rng) string {
		ns, nm := e10NS[rng.Intn(2)], e10Names[rng.Intn(3)]
		if g.dstSrv.Has(ns, nm) && rng.Chance(25) {
			g.dstSrv.Delete(ns, nm)
			return "del pod " + ns + "/" + nm
		}
		l := e10Labels[rng.Intn(len(e10Labels))]
		g.dstSrv.Put(kit.Pod(ns, nm, "", l))
		return "put pod " + ns + "/" + nm + "{" + kit.LabelsString(l) + "}"
	}
	podList := func() ([]metav1.Object, error) {
		l, err := pods.Cache().List()
		return podObjs(l), err
	}
	srcMut := func(srv *kit.Server, mk func(ns, nm string, rng *kit.Rng) runtime.Object, what string) func(rng *kit.Rng) string {
		return func(rng *kit.Rng) string {
			ns, nm := e10NS[rng.Intn(2)], e10Names[rng.Intn(2)]
			if srv.Has(ns, nm) && rng.Chance(30) {
				srv.Delete(ns, nm)
				return "del " + what + " " + ns + "/" + nm
			}
			srv.Put(mk(ns, nm, rng))
			return "put " + what + " " + ns + "/" + nm
		}
	}
	om := func(ns, nm string) metav1.ObjectMeta { return metav1.ObjectMeta{Namespace: ns, Name: nm} }
	tmpl := func(rng *kit.Rng) corev1.PodTemplateSpec {
		return corev1.PodTemplateSpec{ObjectMeta: metav1.ObjectMeta{Labels: e10Labels[1+rng.Intn(3)]}}
	}
	addBase := func(cl func(), dn, rd <-chan struct{}) {
		g.closeBases = append(g.closeBases, cl)
		g.basesDone = append(g.basesDone, dn)
		g.basesReady = append(g.basesReady, rd)
	}
	switch kind {
	case "service-pod", "service-pod-with":
		g.srcSrv = kit.NewServer(core, func() runtime.Object { return &corev1.ServiceList{} })
		e10ApplySrcLatency(g.srcSrv)
		src, err := service.BuildController(g.ctx, g.log, g.srcSrv)
		if err != nil {
			return nil, err
		}
		addBase(src.Close, src.Done(), src.Ready())
		g.mutSrc = srcMut(g.srcSrv, func(ns, nm string, rng *kit.Rng) runtime.Object {
			return &corev1.Service{ObjectMeta: om(ns, nm), Spec: corev1.ServiceSpec{Selector: e10Sels[rng.Intn(len(e10Sels))]}}
		}, "service")
		rule := service.PodsFilter
		if kind == "service-pod-with" {
			// custom rule: pods named like a service of the same namespace
			rule = func(svcs ...*corev1.Service) filter.ComparableFilter {
				var fs []filter.Filter
				for _, s := range svcs {
					fs = append(fs, filter.NSName(nsnameNew(s.Namespace, s.Name)))
				}
				return filter.Or(fs...)
			}
		}
		g.mkJoin = func() (joinInst, error) {
			var c pod.Controller
			var err error
			if kind == "service-pod-with" {
				c, err = join.ServicePodsWith(g.jctx(), src, pods, rule)
			} else {
				c, err = join.ServicePods(g.jctx(), src, pods)
			}
			if err != nil {
				return joinInst{}, err
			}
			return podInst(c), nil
		}
		g.expect = func() (kit.Snap, error) {
			sl, err := src.Cache().List()
			if err != nil {
				return nil, err
			}
			pl, err := podList()
			return applyFilter(rule(sl...), pl), err
		}
	case "rc-pod":
		g.srcSrv = kit.NewServer(core, func() runtime.Object { return &corev1.ReplicationControllerList{} })
		e10ApplySrcLatency(g.srcSrv)
		src, err := replicationcontroller.BuildController(g.ctx, g.log, g.srcSrv)
		if err != nil {
			return nil, err
		}
		addBase(src.Close, src.Done(), src.Ready())
		g.mutSrc = srcMut(g.srcSrv, func(ns, nm string, rng *kit.Rng) runtime.Object {
			t := tmpl(rng)
			return &corev1.ReplicationController{ObjectMeta: om(ns, nm), Spec: corev1.ReplicationControllerSpec{Selector: e10Sels[rng.Intn(len(e10Sels))], Template: &t}}
		}, "rc")
		g.mkJoin = func() (joinInst, error) {
			c, err := join.RCPods(g.jctx(), src, pods)
			if err != nil {
				return joinInst{}, err
			}
			return podInst(c), nil
		}
		g.expect = func() (kit.Snap, error) {
			sl, err := src.Cache().List()
			if err != nil {
				return nil, err
			}
			pl, err := podList()
			return applyFilter(replicationcontroller.PodsFilter(sl...), pl), err
		}
	case "rs-pod":
		g.srcSrv = kit.NewServer(core, func() runtime.Object { return &appsv1.ReplicaSetList{} })
		e10ApplySrcLatency(g.srcSrv)
		src, err := replicaset.BuildController(g.ctx, g.log, g.srcSrv)
		if err != nil {
			return nil, err
		}
		addBase(src.Close, src.Done(), src.Ready())
		g.mutSrc = srcMut(g.srcSrv, func(ns, nm string, rng *kit.Rng) runtime.Object {
			return &appsv1.ReplicaSet{ObjectMeta: om(ns, nm), Spec: appsv1.ReplicaSetSpec{Selector: lselOf(e10Sels[rng.Intn(len(e10Sels))], rng), Template: tmpl(rng)}}
		}, "rs")
		g.mkJoin = func() (joinInst, error) {
			c, err := join.RSPods(g.jctx(), src, pods)
			if err != nil {
				return joinInst{}, err
			}
			return podInst(c), nil
		}
		g.expect = func() (kit.Snap, error) {
			sl, err := src.Cache().List()
			if err != nil {
				return nil, err
			}
			pl, err := podList()
			return applyFilter(replicaset.PodsFilter(sl...), pl), err
		}
	case "deployment-pod":
		g.srcSrv = kit.NewServer(core, func() runtime.Object { return &appsv1.DeploymentList{} })
		e10ApplySrcLatency(g.srcSrv)
		src, err := deployment.BuildController(g.ctx, g.log, g.srcSrv)
		if err != nil {
			return nil, err
		}
		addBase(src.Close, src.Done(), src.Ready())
		g.mutSrc = srcMut(g.srcSrv, func(ns, nm string, rng *kit.Rng) runtime.Object {
			return &appsv1.Deployment{ObjectMeta: om(ns, nm), Spec: appsv1.DeploymentSpec{Selector: lselOf(e10Sels[rng.Intn(len(e10Sels))], rng), Template: tmpl(rng)}}
		}, "deployment")
		g.mkJoin = func() (joinInst, error) {
			c, err := join.DeploymentPods(g.jctx(), src, pods)
			if err != nil {
				return joinInst{}, err
			}
			return podInst(c), nil
		}
		g.expect = func() (kit.Snap, error) {
			sl, err := src.Cache().List()
			if err != nil {
				return nil, err
			}
			pl, err := podList()
			return applyFilter(deployment.PodsFilter(sl...), pl), err
		}
	case "daemonset-pod":
		g.srcSrv = kit.NewServer(core, func() runtime.Object { return &appsv1.DaemonSetList{} })
		e10ApplySrcLatency(g.srcSrv)
		src, err := daemonset.BuildController(g.ctx, g.log, g.srcSrv)
		if err != nil {
			return nil, err
		}
		addBase(src.Close, src.Done(), src.Ready())
		g.mutSrc = srcMut(g.srcSrv, func(ns, nm string, rng *kit.Rng) runtime.Object {
			return &appsv1.DaemonSet{ObjectMeta: om(ns, nm), Spec: appsv1.DaemonSetSpec{Selector: lselOf(e10Sels[rng.Intn(len(e10Sels))], rng), Template: tmpl(rng)}}
		}, "daemonset")
		g.mkJoin = func() (joinInst, error) {
			c, err := join.DaemonSetPods(g.jctx(), src, pods)
			if err != nil {
				return joinInst{}, err
			}
			return podInst(c), nil
		}
		g.expect = func() (kit.Snap, error) {
			sl, err := src.Cache().List()
			if err != nil {
				return nil, err
			}
			pl, err := podList()
			return applyFilter(daemonset.PodsFilter(sl...), pl), err
		}
	case "statefulset-pod":
		g.srcSrv = kit.NewServer(core, func() runtime.Object { return &appsv1.StatefulSetList{} })
		e10ApplySrcLatency(g.srcSrv)
		src, err := statefulset.BuildController(g.ctx, g.log, g.srcSrv)
		if err != nil {
			return nil, err
		}
		addBase(src.Close, src.Done(), src.Ready())
		g.mutSrc = srcMut(g.srcSrv, func(ns, nm string, rng *kit.Rng) runtime.Object {
			return &appsv1.StatefulSet{ObjectMeta: om(ns, nm), Spec: appsv1.StatefulSetSpec{Selector: lselOf(e10Sels[rng.Intn(len(e10Sels))], rng), Template: tmpl(rng)}}
		}, "statefulset")
		g.mkJoin = func() (joinInst, error) {
			c, err := join.StatefulSetPods(g.jctx(), src, pods)
			if err != nil {
				return joinInst{}, err
			}
			return podInst(c), nil
		}
		g.expect = func() (kit.Snap, error) {
			sl, err := src.Cache().List()
			if err != nil {
				return nil, err
			}
			pl, err := podList()
			return applyFilter(statefulset.PodsFilter(sl...), pl), err
		}
	case "job-pod":
		g.srcSrv = kit.NewServer(core, func() runtime.Object { return &batchv1.JobList{} })
		e10ApplySrcLatency(g.srcSrv)
		src, err := job.BuildController(g.ctx, g.log, g.srcSrv)
		if err != nil {
			return nil, err
		}
		addBase(src.Close, src.Done(), src.Ready())
		g.mutSrc = srcMut(g.srcSrv, func(ns, nm string, rng *kit.Rng) runtime.Object {
			return &batchv1.Job{ObjectMeta: om(ns, nm), Spec: batchv1.JobSpec{Selector: lselOf(e10Sels[rng.Intn(len(e10Sels))], rng), Template: tmpl(rng)}}
		}, "job")
		g.mkJoin = func() (joinInst, error) {
			c, err := join.JobPods(g.jctx(), src, pods)
			if err != nil {
				return joinInst{}, err
			}
			return podInst(c), nil
		}
		g.expect = func() (kit.Snap, error) {
			sl, err := src.Cache().List()
			if err != nil {
				return nil, err
			}
			pl, err := podList()
			return applyFilter(job.PodsFilter(sl...), pl), err
		}
	case "ingress-service", "ingress-pods":
		g.srcSrv = kit.NewServer(core, func() runtime.Object { return &netv1beta1.IngressList{} })
		e10ApplySrcLatency(g.srcSrv)
		src, err := ingress.BuildController(g.ctx, g.log, g.srcSrv)
		if err != nil {
			return nil, err
		}
		addBase(src.Close, src.Done(), src.Ready())
		g.midSrv = kit.NewServer(core, func() runtime.Object { return &corev1.ServiceList{} })
		svcs, err := service.BuildController(g.ctx, g.log, g.midSrv)
		if err != nil {
			return nil, err
		}
		addBase(svcs.Close, svcs.Done(), svcs.Ready())
		g.mutSrc = srcMut(g.srcSrv, func(ns, nm string, rng *kit.Rng) runtime.Object {
			ing := &netv1beta1.Ingress{ObjectMeta: om(ns, nm)}
			if rng.Chance(40) {
				ing.Spec.Backend = &netv1beta1.IngressBackend{ServiceName: e10Names[rng.Intn(3)]}
			}
			n := rng.Intn(3)
			if n > 0 {
				ru := netv1beta1.IngressRule{}
				ru.HTTP = &netv1beta1.HTTPIngressRuleValue{}
				for i := 0; i < n; i++ {
					ru.HTTP.Paths = append(ru.HTTP.Paths, netv1beta1.HTTPIngressPath{Backend: netv1beta1.IngressBackend{ServiceName: e10Names[rng.Intn(3)]}})
				}
				ing.Spec.Rules = []netv1beta1.IngressRule{ru}
			}
			return ing
		}, "ingress")
		g.mutMid = func(rng *kit.Rng) string {
			ns, nm := e10NS[rng.Intn(2)], e10Names[rng.Intn(3)]
			if g.midSrv.Has(ns, nm) && rng.Chance(25) {
				g.midSrv.Delete(ns, nm)
				return "del service " + ns + "/" + nm
			}
			g.midSrv.Put(&corev1.Service{ObjectMeta: om(ns, nm), Spec: corev1.ServiceSpec{Selector: e10Sels[rng.Intn(len(e10Sels))]}})
			return "put service " + ns + "/" + nm
		}
		selectedSvcs := func() ([]*corev1.Service, error) {
			il, err := src.Cache().List()
			if err != nil {
				return nil, err
			}
			sl, err := svcs.Cache().List()
			if err != nil {
				return nil, err
			}
			f := ingress.ServicesFilter(il...)
			var out []*corev1.Service
			for _, s := range sl {
				if f.Accept(s) {
					out = append(out, s)
				}
			}
			return out, nil
		}
		if kind == "ingress-service" {
			g.dstBase = len(g.closeBases) - 1 // the services controller
			g.mutDst = g.mutMid
			g.mutMid = nil
			g.mkJoin = func() (joinInst, error) {
				c, err := join.IngressServices(g.jctx(), src, svcs)
				if err != nil {
					return joinInst{}, err
				}
				return svcInst(c), nil
			}
			g.expect = func() (kit.Snap, error) {
				sel, err := selectedSvcs()
				s := kit.Snap{}
				for _, x := range sel {
					s[kit.Key(x)] = x.ResourceVersion
				}
				return s, err
			}
		} else {
			g.mkJoin = func() (joinInst, error) {
				c, err := join.IngressPods(g.jctx(), src, svcs, pods)
				if err != nil {
					return joinInst{}, err
				}
				return podInst(c), nil
			}
			g.expect = func() (kit.Snap, error) {
				sel, err := selectedSvcs()
				if err != nil {
					return nil, err
				}
				pl, err := podList()
				return applyFilter(service.PodsFilter(sel...), pl), err
			}
		}
	default:
		return nil, fmt.Errorf("unknown join %s", kind)
	}
	g.emptySrc = func() {
		for _, o := range g.srcSrv.Objects() {
			g.srcSrv.Delete(o.GetNamespace(), o.GetName())
		}
	}
	return g, nil
}

type e10desc struct {
	Join   string `json:"join"`
	Seed   uint64 `json:"seed"`
	N      int    `json:"n"`
	Cycles int    `json:"create_close_cycles"`
	Steps  int    `json:"steps_per_cycle"`
}

func e10Case(kind string, seed uint64, n int) Case {
	rng0 := kit.NewRng(kit.Mix(seed, uint64(n)+1000+kit.HashStr(kind)))
	cycles := 5 + rng0.Intn(2)
	steps := 25 + rng0.Intn(25)
	d := e10desc{kind, seed, n, cycles, steps}
	id := fmt.Sprintf("E10/%s/%d/%d", kind, seed, n)
	return Case{ID: id, Desc: d, Bubble: true, Run: func(r *Res) {
		rng := rng0
		plan := &kit.Plan{Seed: rng.U64(), PYield: 120, PSleep: 30, MaxSleep: 80 * time.Microsecond}
		if rng.Chance(50) {
			plan.Targets = map[string]time.Duration{[]string{"refiltering...", "update:", "distribute event", "update event"}[rng.Intn(4)]: 60 * time.Microsecond}
		} else if n%2 == 1 {
			// hold a closing subscription between "done" and its removal from its publisher
			// while sibling joins on the same base controllers are closed (coverage only)
			plan.Targets = map[string]time.Duration{"subscription done": 150 * time.Microsecond}
		}
		core := kit.NewCore(plan)
		if n%5 == 4 {
			core = nil // race mode
		}
		lateDst := n%4 == 3 && kind != "ingress-service"
		var dl time.Duration
		if lateDst {
			dl = 2 * time.Second
		}
		lossy := n%3 == 2 && !lateDst && core != nil
		e10LossyDst = lossy
		g, err := newJoinRig(kind, core, dl)
		e10LossyDst = false
		if err != nil {
			r.Inc("building bases: " + err.Error())
			return
		}
		defer g.cancel()
		if lossy {
			r.Add("lossy-destination-watch-cases", 1)
		}
		if lateDst {
			// the join is created while the destination's first list is still in
			// flight and the (possibly empty) source is already ready
			if n%8 == 3 {
				g.mutSrc(rng)
			}
			for i, rd := range g.basesReady {
				if i > 0 {
					waitCh(rd, virtBound)
				}
			}
			core.Barrier()
			early, err := g.mkJoin()
			if err != nil {
				r.V("C09", "join-create-error", "creating join %s before the destination is ready: %v", kind, err)
				return
			}
			if isClosed(early.ready) {
				r.V("C09", "join-ready-before-bases", "join %s is ready although the destination controller's first list is still in flight", kind)
			}
			// a user waiting for the join's readiness reads it the moment Ready() fires
			// (nothing changes on either server during this phase)
			type atReady struct {
				got kit.Snap
				err error
			}
			arc := make(chan atReady, 1)
			go func() {
				select {
				case <-early.ready:
					got, err := early.list()
					arc <- atReady{got, err}
				case <-early.done:
					arc <- atReady{nil, errors.New("join done before ready")}
				}
			}()
			for _, rd := range g.basesReady {
				waitCh(rd, virtBound)
			}
			core.Barrier()
			r.Add("late-destination-joins", 1)
			if isClosed(early.ready) {
				select {
				case ar := <-arc:
					if want, e1 := g.expect(); e1 == nil && ar.err == nil {
						r.Add("join-reads-at-readiness", 1)
						if !ar.got.Equal(want) {
							r.V("C09", "join-content-wrong", "join %s created before the destination was ready: the read made the moment its Ready() fired returned %v, the selection (servers quiet throughout) is %v: ready before synced", kind, ar.got, want)
						}
					}
				default:
				}
			}
			if !isClosed(early.ready) {
				r.V("C09", "join-not-ready", "join %s created before the destination was ready (source ready, %d source objects) is still not ready at quiescence after both became ready", kind, len(g.srcSrv.Objects()))
			} else if want, e1 := g.expect(); e1 == nil {
				if got, e2 := early.list(); e2 == nil && !got.Equal(want) {
					r.V("C09", "join-content-wrong", "join %s created before the destination was ready holds %v, expected %v", kind, got, want)
				}
			}
			if !within(early.close) {
				r.V("C09", "join-close-hang", "join %s: Close() hung", kind)
				return
			}
			core.Barrier()
		}
		mutAny := func() string {
			switch x := rng.Intn(10); {
			case x < 4:
				return g.mutSrc(rng)
			case x < 6 && g.mutMid != nil:
				return g.mutMid(rng)
			default:
				return g.mutDst(rng)
			}
		}
		for i := 0; i < 6; i++ {
			mutAny()
		}
		for _, rd := range g.basesReady {
			if !waitCh(rd, virtBound) {
				r.V("C09", "base-never-ready", "a base controller did not become ready")
				return
			}
		}
		core.Barrier()
		baseline := kit.CensusKeys(kit.Census())
		var trace []string
		for cyc := 0; cyc < cycles && !r.Failed(); cyc++ {
			// source events keep flowing while the join is being created
			for i := 0; i < 3; i++ {
				trace = append(trace, mutAny())
			}
			var jcancel context.CancelFunc
			g.joinCtx = nil
			if cyc%2 == 1 {
				// the context given to the join only carries the logger; it may end
				// long before the join is closed
				var jc context.Context
				jc, jcancel = context.WithCancel(context.Background())
				g.joinCtx = logutil.NewContext(jc, g.log)
			}
			if cyc == 2 || (cyc > 2 && rng.Chance(20)) {
				// the join is created over an EMPTY source
				g.emptySrc()
				core.Barrier()
				r.Add("empty-source-joins", 1)
			}
			ji, err := g.mkJoin()
			if jcancel != nil {
				jcancel()
				r.Add("join-context-cancelled-early", 1)
			}
			if err != nil {
				r.V("C09", "join-create-error", "creating join %s over running bases: %v", kind, err)
				return
			}
			// ready ordering: when the join is ready, source and destination are
			rw := make(chan bool, 1)
			go func() {
				select {
				case <-ji.ready:
					ok := true
					for _, rd := range g.basesReady {
						ok = ok && isClosed(rd)
					}
					rw <- ok
				case <-ji.done:
					rw <- true
				}
			}()
			evch, subClose, err := ji.subscribe()
			if err != nil {
				r.V("C09", "join-subscribe-error", "%v", err)
				return
			}
			mir := startMirror("join-subscriber", evch, ji.ready, nil)
			// sibling joins over the same base controllers come and go while events are in
			// flight; the join under observation must not notice
			type sibJoin struct {
				close func()
				done  <-chan struct{}
			}
			var sibs, closing []sibJoin
			for s := 0; s < steps && !r.Failed(); s++ {
				if cyc%2 == 0 && g.joinCtx == nil {
					if s%5 == 1 && len(sibs) < 3 {
						if sj, err := g.mkJoin(); err == nil {
							sibs = append(sibs, sibJoin{sj.close, sj.done})
						}
					}
					if s%5 == 3 && len(sibs) > 0 {
						v := sibs[0]
						sibs = sibs[1:]
						closing = append(closing, v)
						go v.close()
						r.Add("sibling-joins-closed-mid-stream", 1)
					}
				}
				m := mutAny()
				if len(trace) < 40 {
					trace = append(trace, m)
				}
				if rng.Chance(12) {
					time.Sleep(time.Duration(1+rng.Intn(2000)) * time.Millisecond)
				}
				if s%15 == 14 || s == steps-1 {
					if lossy {
						time.Sleep(70 * time.Second) // one relist of the destination (period 1 min +-10%)
					}
					core.Barrier()
					if !isClosed(ji.ready) {
						r.V("C09", "join-not-ready", "join %s over ready bases is not ready at quiescence (cycle %d step %d)", kind, cyc, s)
						break
					}
					want, err1 := g.expect()
					got, err2 := ji.list()
					if err1 != nil || err2 != nil {
						r.V("C09", "join-read-error", "%v %v", err1, err2)
						break
					}
					r.Add("join-content-checks", 1)
					if len(want) > 0 {
						r.Add("join-content-checks-nonempty", 1)
					}
					if !got.Equal(want) {
						r.V("C09", "join-content-wrong", "join %s (cycle %d, step %d): cache is %v; the destination objects selected by the current source objects are %v; recent ops: %v", kind, cyc, s, got, want, trace[max(0, len(trace)-8):])
						break
					}
					if core.Overruns() == 0 {
						if mir.isSeeded() {
							r.Add("join-mirror-checks", 1)
							if ms := mir.snap(); !ms.Equal(got) {
								r.V("C09", "join-mirror-diverged", "join %s: replaying its events gives %v, its cache is %v; last events: %s", kind, ms, got, tailEvents(mir.events(), 10))
								break
							}
						} else {
							mir.seed(got)
						}
					}
					mir.report(r, "C09")
				}
			}
			select {
			case ok := <-rw:
				r.Add("ready-order-checks", 1)
				if !ok {
					r.V("C09", "join-ready-before-bases", "join %s became ready while a source/destination controller was not ready", kind)
				}
			default:
			}
			if mir.preReady() > 0 {
				r.V("C08", "event-before-ready", "join subscriber received %d event(s) before the join's Ready() closed", mir.preReady())
			}
			for _, v := range sibs {
				if !within(v.close) {
					r.V("C09", "join-close-hang", "sibling join %s: Close() did not return\n%s", kind, kit.CensusText(kit.Census(), 10))
					return
				}
				closing = append(closing, v)
			}
			for _, v := range closing {
				if !waitCh(v.done, virtBound) {
					r.V("C09", "join-close-hang", "sibling join %s: Done() did not close\n%s", kind, kit.CensusText(kit.Census(), 10))
					return
				}
			}
			// ---- close the join: everything it created stops, bases keep running ----
			subClose()
			if !within(ji.close) || !waitCh(ji.done, virtBound) {
				r.V("C09", "join-close-hang", "join %s: Close()/Done() did not complete\n%s", kind, kit.CensusText(kit.Census(), 10))
				return
			}
			core.Barrier()
			after := kit.CensusKeys(kit.Census())
			r.Add("close-cycles", 1)
			if !equalStrings(baseline, after) {
				r.V("C09", "join-leaks-goroutines", "join %s: after create/close cycle %d the library goroutine census is %d, it was %d before the first join; extra: %v", kind, cyc+1, len(after), len(baseline), diffStrings(after, baseline))
				return
			}
			for _, dn := range g.basesDone {
				if isClosed(dn) {
					r.V("C09", "join-close-stops-base", "closing the %s join shut down a base controller", kind)
					return
				}
			}
		}
		// bases still converge
		for i := 0; i < 6; i++ {
			mutAny()
		}
		core.Barrier()
		if ji, err := g.mkJoin(); err == nil {
			core.Barrier()
			want, _ := g.expect()
			got, _ := ji.list()
			if !got.Equal(want) {
				r.V("C09", "join-content-wrong", "fresh %s join after %d create/close cycles holds %v, expected %v", kind, cycles, got, want)
			}
			within(ji.close)
		}
		// a join that cannot be created (its destination controller is gone) must
		// fail cleanly and leave the other controllers running
		if !within(g.closeBases[g.dstBase]) {
			r.V("C12", "close-hang", "destination base Close() hung")
			return
		}
		core.Barrier()
		beforeFailed := kit.CensusKeys(kit.Census())
		for attempt := 0; attempt < 3; attempt++ {
			if ji, err := g.mkJoin(); err == nil {
				// (a join over a stopped destination may also be returned, already done)
				if !waitCh(ji.done, virtBound) {
					r.V("C09", "join-zombie", "join %s created over a stopped destination controller never becomes done", kind)
				}
			} else {
				r.Add("failed-join-creations", 1)
			}
		}
		core.Barrier()
		// whatever a failed creation had already started is stopped again: the other
		// controllers keep running, and nothing new is running beside them
		if afterFailed := kit.CensusKeys(kit.Census()); !equalStrings(beforeFailed, afterFailed) {
			r.V("C09", "join-leaks-goroutines", "three attempts to create the %s join over a stopped destination controller: the library goroutine census grew from %d to %d although nothing was handed to the caller; extra: %v", kind, len(beforeFailed), len(afterFailed), diffStrings(afterFailed, beforeFailed))
		}
		for i, dn := range g.basesDone {
			if i != g.dstBase && isClosed(dn) {
				r.V("C09", "join-close-stops-base", "a failed attempt to create the %s join over a stopped destination shut down another base controller (#%d)", kind, i)
			}
		}
		for _, c := range g.closeBases {
			if !within(c) {
				r.V("C12", "close-hang", "base Close() hung")
				return
			}
		}
		core.Barrier()
		if gs := kit.Census(); len(gs) > 0 {
			r.V("C12", "goroutine-leak", "%d library goroutines remain after closing the bases: %v", len(gs), kit.CensusKeys(gs))
		}
		r.Set("joins", kind)
		r.Add("refilter-points", int64(core.PointCount("refiltering...")))
		r.Set("signatures", strconv.FormatUint(core.Signature(), 16))
		r.Key(id)
		r.Sample = map[string]interface{}{"desc": d, "ops": trace[:min(len(trace), 12)], "baseline_goroutines": len(baseline)}
	}}
}

func equalStrings(a, b []string) bool {
	if len(a) != len(b) {
		return false
	}
	for i := range a {
		if a[i] != b[i] {
			return false
		}
	}
	return true
}

func diffStrings(a, b []string) []string {
	cnt := map[string]int{}
	for _, x := range b {
		cnt[x]++
	}
	var out []string
	for _, x := range a {
		if cnt[x] > 0 {
			cnt[x]--
		} else {
			out = append(out, x)
		}
	}
	if len(out) > 12 {
		out = out[:12]
	}
	return out
}

// e10As wraps a join case for another property's check: violations of C09 whose
// class is in classes (nil = all) are reported under prop as well.
func e10As(c Case, prop string, classes map[string]bool) Case {
	inner := c.Run
	c.ID = prop + "/" + c.ID
	c.Run = func(r *Res) {
		inner(r)
		r.mu.Lock()
		var extra []Viol
		for _, v := range r.Viol {
			if v.Prop == "C09" && (classes == nil || classes[v.Class]) {
				extra = append(extra, Viol{prop, "join:" + v.Class, v.Detail})
			}
		}
		r.Viol = append(r.Viol, extra...)
		r.mu.Unlock()
		r.Add("join-cases", 1)
	}
	return c
}

// e10LateSrcCase: the join is created while the SOURCE controller's first list
// is still in flight and the destination is ready and busy: well over a buffer's
// worth of destination events (deletes and re-creations among them) pass before
// the join can become ready.  When source and destination are ready the join is
// ready and holds exactly the selection, and it keeps following both.
func e10LateSrcCase(kind string, seed uint64, n int) Case {
	id := fmt.Sprintf("E10/%s/late-source/%d/%d", kind, seed, n)
	d := e10desc{kind + "/late-source", seed, n, 1, 0}
	return Case{ID: id, Desc: d, Bubble: true, Run: func(r *Res) {
		rng := kit.NewRng(kit.Mix(seed, uint64(n)+1090+kit.HashStr(kind)))
		core := kit.NewCore(&kit.Plan{Seed: rng.U64(), PYield: 100})
		e10SrcLatency = 3 * time.Second
		g, err := newJoinRig(kind, core, 0)
		e10SrcLatency = 0
		if err != nil {
			r.Inc("building bases: " + err.Error())
			return
		}
		defer g.cancel()
		for i := 0; i < 4; i++ {
			g.mutSrc(rng)
			g.mutDst(rng)
		}
		if !waitCh(g.basesReady[0], virtBound) {
			r.V("C09", "base-never-ready", "the destination controller did not become ready")
			return
		}
		core.Barrier()
		srcReady := true
		for _, rd := range g.basesReady {
			srcReady = srcReady && isClosed(rd)
		}
		if srcReady {
			r.Inc("the source was ready before the join was created")
			return
		}
		ji, err := g.mkJoin()
		if err != nil {
			r.V("C09", "join-create-error", "creating join %s before the source is ready: %v", kind, err)
			return
		}
		total := kcache.EventBufsiz + 30 + rng.Intn(60)
		for i := 0; i < total; i++ {
			g.mutDst(rng)
			if i%20 == 19 {
				core.Barrier()
			}
		}
		core.Barrier()
		if isClosed(ji.ready) {
			r.V("C09", "join-ready-before-bases", "join %s is ready although the source controller's first list is still in flight", kind)
		}
		for _, rd := range g.basesReady {
			if !waitCh(rd, virtBound) {
				r.V("C09", "base-never-ready", "a base controller did not become ready")
				return
			}
		}
		time.Sleep(10 * time.Millisecond)
		core.Barrier()
		r.Add("late-source-joins", 1)
		check := func(when string) bool {
			if !isClosed(ji.ready) {
				r.V("C09", "join-not-ready", "join %s created before the source was ready is still not ready %s", kind, when)
				return false
			}
			want, e1 := g.expect()
			got, e2 := ji.list()
			if e1 == nil && e2 == nil && !got.Equal(want) {
				r.V("C09", "join-content-wrong", "join %s created before the source was ready, %d destination events meanwhile; %s it holds %v, the selection is %v", kind, total, when, got, want)
				return false
			}
			return true
		}
		if !check("at quiescence after both bases became ready") {
			return
		}
		for i := 0; i < 12; i++ {
			if i%3 == 0 {
				g.mutSrc(rng)
			} else {
				g.mutDst(rng)
			}
		}
		time.Sleep(10 * time.Millisecond)
		core.Barrier()
		check("after 12 further source/destination changes")
		if !within(ji.close) {
			r.V("C09", "join-close-hang", "join %s: Close() hung", kind)
		}
		r.Key(id)
		r.Sample = map[string]interface{}{"desc": d, "destination_events_before_ready": total}
	}}
}

func init() {
	register("E10", func(tier string, seed uint64) []Case {
		var cases []Case
		n := tierPick(tier, 8, 2500)
		for _, k := range e10Joins {
			for i := 0; i < n; i++ {
				cases = append(cases, e10Case(k, seed, i))
			}
			if k != "ingress-pods" {
				for i := 0; i < tierPick(tier, 3, 300); i++ {
					cases = append(cases, e10LateSrcCase(k, seed, i))
				}
			}
		}
		return cases
	})
}
