package engines

// Blank imports of everything the engines use, so that go.mod/go.sum of the
// harness module are complete and stable (the sandbox is offline).
import (
	_ "github.com/anishathalye/porcupine"
	_ "github.com/boz/kcache/join"
	_ "github.com/boz/kcache/types/daemonset"
	_ "github.com/boz/kcache/types/deployment"
	_ "github.com/boz/kcache/types/event"
	_ "github.com/boz/kcache/types/ingress"
	_ "github.com/boz/kcache/types/job"
	_ "github.com/boz/kcache/types/node"
	_ "github.com/boz/kcache/types/pod"
	_ "github.com/boz/kcache/types/replicaset"
	_ "github.com/boz/kcache/types/replicationcontroller"
	_ "github.com/boz/kcache/types/secret"
	_ "github.com/boz/kcache/types/service"
	_ "github.com/boz/kcache/types/statefulset"
	_ "k8s.io/client-go/kubernetes"
	_ "k8s.io/client-go/rest"
)
