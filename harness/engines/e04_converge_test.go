package engines

// E4: the controller converges to the API server at every relist (C03).

import (
	"fmt"
	"strconv"
	"sync"
	"sync/atomic"
	"time"

	"github.com/boz/kcache/nsname"
	"k8s.io/apimachinery/pkg/watch"

	"github.com/boz/kcache"

	"verifharness/kit"
)

type watchEvent = watch.Event

func nsnameNew(ns, name string) nsname.NSName { return nsname.New(ns, name) }

type e4desc struct {
	Seed    uint64 `json:"seed"`
	N       int    `json:"n"`
	Mode    string `json:"mode"` // mixed | watch-dead-block | watch-dead-error | watch-silent
	Period  string `json:"period"`
	Filter  string `json:"filter"`
	Phases  int    `json:"phases"`
	Race    bool   `json:"race_mode"`
	Perturb string `json:"perturb"`
}

func e4Case(seed uint64, n int, mode string, race bool) Case {
	rng := kit.NewRng(kit.Mix(seed, uint64(n)*31+uint64(len(mode))))
	periods := []time.Duration{time.Second, 10 * time.Second, time.Minute}
	P := periods[rng.Intn(len(periods))]
	fam := filterFamily()
	fi := []int{0, 2, 3, 4, 5, 7}[rng.Intn(6)]
	F := fam[fi]
	phases := 3 + rng.Intn(4)
	planSeed := rng.U64()
	targets := []string{"", "controller|update event", "watcher|session event", "controller|list complete", "watcher|ressetting", "watcher|session done", "controller|distribute events"}
	tgt := targets[rng.Intn(len(targets))]
	d := e4desc{seed, n, mode, P.String(), F.String(), phases, race, tgt}
	id := fmt.Sprintf("E4/%s/%d/%d/r%v", mode, seed, n, race)
	return Case{ID: id, Desc: d, Bubble: true, Run: func(r *Res) {
		plan := &kit.Plan{Seed: planSeed, PYield: 100, PSleep: 30, MaxSleep: 200 * time.Microsecond}
		if tgt != "" {
			plan.Targets = map[string]time.Duration{tgt: 500 * time.Microsecond}
		}
		var core *kit.Core
		if !race {
			core = kit.NewCore(plan)
		}
		srv := kit.NewPodServer(core)
		u := smallUniverse()
		for i := 0; i < 3; i++ {
			u.mutate(rng, srv)
		}
		// fault plans are fixed per call index up front (pure function of the seed)
		frng := rng.Fork(1)
		listLat := map[int]time.Duration{}
		listLate := map[int]bool{}
		for i := 1; i < 400; i++ {
			switch x := frng.Intn(10); {
			case x < 5:
			case x < 7:
				listLat[i] = P / 10
			case x < 8:
				listLat[i] = P / 2
			case x < 9:
				listLat[i] = P + P/10
			default:
				listLat[i] = 3 * P
			}
			listLate[i] = frng.Bool()
		}
		srv.ListPlan = func(i int) kit.ListFault {
			return kit.ListFault{Latency: listLat[i], SnapshotLate: listLate[i]}
		}
		wrng := rng.Fork(2)
		wf := map[int]kit.WatchFault{}
		for i := 1; i < 2000; i++ {
			f := kit.NoWatchFault()
			switch mode {
			case "watch-dead-block":
				f.Block = true
			case "watch-dead-error":
				f.Err = true
			case "watch-silent":
				f.Drop = map[int]bool{}
				for j := 0; j < 400; j++ {
					f.Drop[j] = true
				}
			default:
				switch x := wrng.Intn(12); {
				case x < 4:
				case x < 5:
					f.Err = true
				case x < 6:
					f.Block = true
				case x < 8:
					f.CloseAfter = wrng.Intn(6)
				case x < 9:
					f.Drop = map[int]bool{wrng.Intn(5): true, wrng.Intn(8): true}
				case x < 10:
					f.Dup = map[int]bool{wrng.Intn(5): true}
				case x < 11:
					f.Frames = map[int][]watchEvent{wrng.Intn(4): {kit.StatusFrame(), kit.BookmarkFrame(1)}}
				default:
					f.Frames = map[int][]watchEvent{wrng.Intn(4): {kit.UnknownFrame()}}
					f.CloseAfter = 2 + wrng.Intn(5)
				}
			}
			wf[i] = f
		}
		srv.WatchPlan = func(i int) kit.WatchFault {
			switch mode {
			case "watch-dead-block":
				return kit.WatchFault{Block: true, CloseAfter: -1}
			case "watch-dead-error":
				return kit.WatchFault{Err: true, CloseAfter: -1}
			case "watch-silent":
				return wf[1]
			}
			if f, ok := wf[i]; ok {
				return f
			}
			return kit.NoWatchFault()
		}

		g, err := newCtlRig(core, srv, P, F)
		if err != nil {
			r.Inc("builder: " + err.Error())
			return
		}
		sub, err := g.ctl.Subscribe()
		if err != nil {
			r.V("C03", "subscribe-error", "Subscribe on a running controller: %v", err)
			g.shutdown(r, "C12")
			return
		}
		mir := startMirror("root-subscriber", sub.Events(), sub.Ready(), sub.Cache())
		if !waitCh(g.ctl.Ready(), virtBound) {
			r.V("C03", "never-ready", "controller not ready within %v although the first list succeeds\n%s", virtBound, kit.CensusText(kit.Census(), 10))
			g.shutdown(r, "C12")
			return
		}
		g.barrier()
		s0, _ := cacheSnap(g.ctl.Cache())
		mir.seed(s0)

		maxLat := 3 * P
		failed := false
		for ph := 0; ph < phases && !failed; ph++ {
			nm := 2 + rng.Intn(8)
			if (mode != "mixed" && ph == 1) || (mode == "mixed" && rng.Chance(10)) {
				// everything disappears (e.g. while the watch is down): the next list
				// is EMPTY and must clear the cache
				for _, o := range srv.Objects() {
					srv.Delete(o.GetNamespace(), o.GetName())
				}
				nm = 0
				r.Add("drain-all-phases", 1)
			}
			for i := 0; i < nm; i++ {
				u.mutate(rng, srv)
				switch rng.Intn(4) {
				case 0:
					time.Sleep(time.Duration(1+rng.Intn(int(P/4))) * 1)
				case 1:
					time.Sleep(time.Millisecond)
				}
				if mode != "mixed" && rng.Chance(25) {
					// watch delivers nothing in these modes: after each consumed list the
					// cache equals that list (rule 2)
					g.barrier()
					e4PerList(r, g, mode)
				}
			}
			// quiescence
			T := time.Now()
			converged := false
			for attempt := 0; attempt < 5 && !converged; attempt++ {
				time.Sleep(P*5/2 + maxLat + 3*time.Second)
				g.barrier()
				if isClosed(g.ctl.Done()) {
					r.V("C03", "controller-died", "controller is done (err=%v) although no list failed", g.ctl.Error())
					failed = true
					break
				}
				ok := false
				for _, l := range srv.Lists() {
					if l.Start.After(T) && l.Returned && l.Err == nil {
						ok = true
					}
				}
				if !ok {
					if attempt == 4 {
						lists := srv.Lists()
						last := "none"
						if len(lists) > 0 {
							ll := lists[len(lists)-1]
							last = fmt.Sprintf("#%d started %v before quiescence began, returned=%v", ll.N, T.Sub(ll.Start), ll.Returned)
						}
						r.V("C03", "relist-stopped", "no list call started in %v of virtual time after the server went quiet (period %v); last list: %s; inflight=%d\n%s",
							time.Since(T), P, last, srv.Inflight(), kit.CensusText(kit.Census(), 14))
						failed = true
					}
					continue
				}
				converged = true
				want := F.Accepted(srv.Objects())
				got, err := cacheSnap(g.ctl.Cache())
				if err != nil {
					r.V("C03", "cache-read-error", "Cache().List: %v", err)
					failed = true
					break
				}
				if !got.Equal(want) {
					r.V("C03", "not-converged", "phase %d: %v after the server went quiet and a fresh list was consumed the cache is %v, accepted server content is %v (filter %s, mode %s)", ph, time.Since(T), got, want, F, mode)
					failed = true
				}
				r.Add("convergence-checks", 1)
				if core != nil && core.Overruns() == 0 {
					if ms := mir.snap(); !ms.Equal(got) {
						r.V("C03", "mirror-diverged", "phase %d: subscriber mirror %v != cache %v; last events: %s", ph, ms, got, tailEvents(mir.events(), 12))
						failed = true
					}
					r.Add("mirror-checks", 1)
				}
			}
			mir.report(r, "C03")
			mir.reportCacheClause(r)
			e4WatchVersions(r, srv)
		}
		r.Add("lists", int64(len(srv.Lists())))
		r.Add("watch-calls", int64(len(srv.Watches())))
		r.Add("events-received", int64(mir.count()))
		nd := 0
		for _, w := range srv.Watches() {
			nd += w.Delivered
		}
		r.Add("watch-deliveries", int64(nd))
		if core != nil {
			r.Set("signatures", strconv.FormatUint(core.Signature(), 16))
			for _, p := range core.Points() {
				r.Set("points", p)
			}
			r.Add("overruns", int64(core.Overruns()))
		}
		g.shutdown(r, "C12")
		r.Key(id)
		r.Sample = map[string]interface{}{"desc": d, "lists": len(srv.Lists()), "watches": len(srv.Watches()), "events": mir.count(), "final": F.Accepted(srv.Objects()).String()}
	}}
}

// e4PerList: with a watch that delivers nothing, the cache equals the accepted
// objects of the last consumed list.
func e4PerList(r *Res, g *ctlRig, mode string) {
	lists := g.srv.Lists()
	var last *kit.ListCall
	for i := range lists {
		if lists[i].Returned && lists[i].Err == nil {
			last = &lists[i]
		}
	}
	if last == nil {
		return
	}
	// a later list that has returned at the barrier has been consumed; lists are
	// issued one at a time, so 'last' is the newest consumed one.
	want := kit.Snap{}
	for _, o := range g.srv.LogObjectsAt(last.Snap) {
		if g.F.Eval(o) {
			want[kit.Key(o)] = o.GetResourceVersion()
		}
	}
	got, err := cacheSnap(g.ctl.Cache())
	if err != nil {
		return
	}
	r.Add("per-list-checks", 1)
	if !got.Equal(want) {
		r.V("C03", "cache-not-equal-to-list", "mode %s: after list #%d (rv %d) was consumed and with a watch that delivers nothing the cache is %v, the list's accepted objects are %v", mode, last.N, last.RV, got, want)
	}
}

// e4WatchVersions: rule 4 — the watch is restarted at each list's version, and
// never at a version newer than anything the controller has been given.
func e4WatchVersions(r *Res, srv *kit.Server) {
	lists := srv.Lists()
	ws := srv.Watches()
	for i, l := range lists {
		if !l.Returned || l.Err != nil || i+1 >= len(lists) {
			continue
		}
		next := lists[i+1]
		found := false
		for _, w := range ws {
			if !w.Time.Before(l.End) && !w.Time.After(next.Start) && w.RV == strconv.Itoa(l.RV) {
				found = true
			}
		}
		r.Add("restart-version-checks", 1)
		if !found {
			r.V("C03", "watch-not-restarted-at-list-version", "list #%d returned rv %d at %v but no Watch call with that version was made before list #%d started", l.N, l.RV, l.End.Format("15:04:05.000"), next.N)
			return
		}
	}
	// never from the future
	for _, w := range ws {
		maxGiven := 0
		for _, l := range lists {
			if l.Returned && !l.End.After(w.Time) && l.RV > maxGiven {
				maxGiven = l.RV
			}
		}
		for _, w2 := range ws {
			if w2.N < w.N && w2.LastRV > maxGiven {
				maxGiven = w2.LastRV
			}
		}
		if kit.Atoi(w.RV) > maxGiven {
			r.V("C03", "watch-from-future", "Watch call #%d asked for version %s but the controller had only been given versions up to %d", w.N, w.RV, maxGiven)
			return
		}
	}
}

// e4RaceCase: events of the OLD watch session that are older than a list are
// still buffered when that list's result is handled (the controller is slow
// at 'update event' while a burst of delete+re-create arrives just before the
// list's snapshot).  Right after the list has been consumed, with the server
// quiet, the cache must equal the list: nothing older may be applied on top.
func e4RaceCase(seed uint64, n int) Case {
	id := fmt.Sprintf("E4/relist-race/%d/%d", seed, n)
	return Case{ID: id, Desc: map[string]interface{}{"seed": seed, "n": n, "mode": "relist-race"}, Bubble: true, Run: func(r *Res) {
		rng := kit.NewRng(kit.Mix(seed, uint64(n)+4400))
		P := 10 * time.Second
		slow := []string{"controller|update event", "controller|distribute events", "watcher|session event"}[rng.Intn(3)]
		core := kit.NewCore(&kit.Plan{Seed: rng.U64(), PYield: 100, Targets: map[string]time.Duration{slow: time.Duration(200+rng.Intn(400)) * time.Microsecond}})
		srv := kit.NewPodServer(core)
		u := smallUniverse()
		for i := 0; i < 5; i++ {
			u.mutate(rng, srv)
		}
		lat := time.Duration(50+rng.Intn(300)) * time.Microsecond
		srv.ListPlan = func(i int) kit.ListFault { return kit.ListFault{Latency: lat, SnapshotLate: true} }
		var mu sync.Mutex
		burstAt := map[int]int{}
		srv.OnList = func(i int) {
			if i < 2 {
				return
			}
			// a burst of delete + re-create (and plain updates) BEFORE the snapshot
			mu.Lock()
			defer mu.Unlock()
			objs := srv.Objects()
			k := 0
			for _, o := range objs {
				if k >= 3 {
					break
				}
				srv.Delete(o.GetNamespace(), o.GetName())
				srv.Put(kit.Pod(o.GetNamespace(), o.GetName(), "", o.GetLabels()))
				k++
			}
			burstAt[i] = k
		}
		fam := filterFamily()
		F := fam[[]int{0, 0, 2, 5}[rng.Intn(4)]]
		g, err := newCtlRig(core, srv, P, F)
		if err != nil {
			r.Inc(err.Error())
			return
		}
		sub, _ := g.ctl.Subscribe()
		mir := startMirror("root-subscriber", sub.Events(), sub.Ready(), sub.Cache())
		if !waitCh(g.ctl.Ready(), virtBound) {
			r.V("C03", "never-ready", "controller not ready")
			return
		}
		g.barrier()
		s0, _ := cacheSnap(g.ctl.Cache())
		mir.seed(s0)
		for round := 0; round < 4; round++ {
			have := len(srv.Lists())
			for i := 0; i < 400 && len(srv.Lists()) == have; i++ {
				time.Sleep(P / 20)
			}
			if len(srv.Lists()) == have {
				r.V("C03", "relist-stopped", "no list within 20 periods")
				break
			}
			time.Sleep(100 * time.Millisecond) // far below the period: no further relist yet
			g.barrier()
			want := F.Accepted(srv.Objects())
			got, _ := cacheSnap(g.ctl.Cache())
			r.Add("post-list-checks", 1)
			if !got.Equal(want) {
				r.V("C03", "stale-event-applied-after-list", "round %d: 100ms after list #%d was consumed (server quiet since before its snapshot) the cache is %v, the list's accepted objects are %v: an older watch event was applied on top of the list; last events at the subscriber: %s", round, len(srv.Lists()), got, want, tailEvents(mir.events(), 8))
				break
			}
			if core.Overruns() == 0 {
				if ms := mir.snap(); !ms.Equal(got) {
					r.V("C03", "mirror-diverged", "round %d: subscriber mirror %v != cache %v", round, ms, got)
					break
				}
			}
			mir.report(r, "C03")
			mir.reportCacheClause(r)
		}
		g.shutdown(r, "C12")
		r.Key(id)
		r.Set("signatures", strconv.FormatUint(core.Signature(), 16))
		r.Sample = map[string]interface{}{"mode": "relist-race", "slow_point": slow, "filter": F.String(), "lists": len(srv.Lists())}
	}}
}

// e4RetryRaceCase: a relist is handled at (almost) the instant the reconnect
// delay of an earlier disconnect expires, with the watcher slowed down at its
// own log points, so that the expiry falls INTO the watcher's handling of the
// reset.  The list is newer than everything the old session delivered and
// contains a deleted and re-created object; once the list has been consumed,
// with the server quiet since before its snapshot, the cache must equal the
// list, and no Watch call may go back to a version older than the list's.
func e4RetryRaceCase(seed uint64, n int) Case { return eRelistAtExpiryCase("C03", "E4", seed, n) }

// eRelistAtExpiryCase: prop/engine name the property the case is run for (C03 in E4, C04 in E5).
func eRelistAtExpiryCase(prop, eng string, seed uint64, n int) Case {
	id := fmt.Sprintf("%s/relist-at-reconnect-expiry/%d/%d", eng, seed, n)
	// offset of the list's release relative to (disconnect + reconnect delay)
	off := time.Duration(n%40-8) * 100 * time.Microsecond
	hold := []time.Duration{150 * time.Microsecond, 400 * time.Microsecond, 900 * time.Microsecond}[(n/40)%3]
	return Case{ID: id, Desc: map[string]interface{}{"seed": seed, "n": n, "list_release_offset": off.String(), "watcher_hold": hold.String(), "what": "relist consumed at the expiry of a pending reconnect delay"}, Bubble: true, Run: func(r *Res) {
		rng := kit.NewRng(kit.Mix(seed, uint64(n)+4700))
		P := 10 * time.Second
		core := kit.NewCore(&kit.Plan{Seed: rng.U64(), PYield: 100, Targets: map[string]time.Duration{"watcher|": hold}})
		srv := kit.NewPodServer(core)
		for _, nm := range []string{"a", "b", "c"} {
			srv.Put(kit.Pod("n0", nm, "", map[string]string{"l": "x"}))
		}
		release := make(chan struct{})
		srv.ListPlan = func(i int) kit.ListFault { return kit.ListFault{SnapshotLate: true} }
		srv.OnList = func(i int) {
			if i == 2 {
				<-release
			}
		}
		srv.WatchPlan = func(i int) kit.WatchFault {
			f := kit.NoWatchFault()
			if i == 1 {
				f.CloseAfter = 2
			}
			return f
		}
		g, err := newCtlRig(core, srv, P, nil)
		if err != nil {
			close(release)
			r.Inc(err.Error())
			return
		}
		released := false
		defer func() {
			if !released {
				close(release)
			}
			g.shutdown(r, "C12")
		}()
		sub, _ := g.ctl.Subscribe()
		mir := startMirror("root-subscriber", sub.Events(), sub.Ready(), sub.Cache())
		if !waitCh(g.ctl.Ready(), virtBound) {
			r.V(prop, "never-ready", "controller not ready")
			return
		}
		g.barrier()
		s0, _ := cacheSnap(g.ctl.Cache())
		mir.seed(s0)
		for i := 0; i < 3000 && len(srv.Lists()) < 2; i++ {
			time.Sleep(10 * time.Millisecond)
		}
		if len(srv.Lists()) != 2 {
			r.Inc("list #2 not observed")
			return
		}
		// two events end stream #1; then a delete + re-create that only the list will show
		srv.Put(kit.Pod("n0", "b", "", map[string]string{"l": "y"}))
		srv.Put(kit.Pod("n0", "c", "", map[string]string{"l": "y"}))
		disconnected := time.Now()
		srv.Delete("n0", "a")
		srv.Put(kit.Pod("n0", "a", "", map[string]string{"l": "x"}))
		wait := kcache.VerifWatchRetryDelay + off
		time.Sleep(wait)
		close(release)
		released = true
		time.Sleep(100 * time.Millisecond)
		g.barrier()
		r.Add("post-list-checks", 1)
		want := kit.SnapOf(srv.Objects())
		got, _ := cacheSnap(g.ctl.Cache())
		if !got.Equal(want) {
			r.V(prop, "stale-event-applied-after-list", "list #2 was released %v after a disconnect (reconnect delay %v, watcher held %v at its log points) and consumed; 100ms later, the server quiet since before its snapshot, the cache is %v, the list was %v; watch calls: %s; last events at the subscriber: %s", time.Since(disconnected)-100*time.Millisecond, kcache.VerifWatchRetryDelay, hold, got, want, watchSummary(srv.Watches()), tailEvents(mir.events(), 8))
			return
		}
		time.Sleep(3 * time.Second)
		g.barrier()
		lists := srv.Lists()
		if len(lists) == 2 && lists[1].Returned {
			// once the watch has been restarted at the list's version, no later Watch call
			// may go back behind it (a reconnect made BEFORE the list was consumed may)
			restarted := 0
			for _, w := range srv.Watches() {
				if restarted == 0 && kit.Atoi(w.RV) == lists[1].RV {
					restarted = w.N
					continue
				}
				if restarted > 0 && w.N > restarted && kit.Atoi(w.RV) < lists[1].RV {
					r.V(prop, "watch-restarted-before-list-version", "the watch had been restarted at list #2's version %d (Watch call #%d); Watch call #%d then asked for the OLDER version %s: history the list already covers is replayed on top of it; watch calls: %s", lists[1].RV, restarted, w.N, w.RV, watchSummary(srv.Watches()))
					return
				}
			}
		}
		got, _ = cacheSnap(g.ctl.Cache())
		if !got.Equal(want) {
			r.V(prop, "stale-event-applied-after-list", "3s after list #2 was consumed (server quiet) the cache is %v, the server %v; watch calls: %s", got, want, watchSummary(srv.Watches()))
			return
		}
		// ... and the watch still works: two more events arrive within the reconnect delay
		// (the next relist is several seconds away)
		nl := len(srv.Lists())
		srv.Put(kit.Pod("n0", "b", "", map[string]string{"l": "z"}))
		srv.Put(kit.Pod("n0", "d", "", map[string]string{"l": "x"}))
		time.Sleep(kcache.VerifWatchRetryDelay + 300*time.Millisecond)
		g.barrier()
		if len(srv.Lists()) == nl {
			want = kit.SnapOf(srv.Objects())
			got, _ = cacheSnap(g.ctl.Cache())
			r.Add("continuity-checks", 1)
			if !got.Equal(want) {
				r.V(prop, "not-converged-after-reconnect", "a relist was consumed at the expiry of a pending reconnect delay; two events emitted 3s later have not reached the cache %v after the server went quiet (reconnect delay %v, no relist since): cache %v, server %v; watch calls: %s", kcache.VerifWatchRetryDelay+300*time.Millisecond, kcache.VerifWatchRetryDelay, got, want, watchSummary(srv.Watches()))
				return
			}
		}
		mir.report(r, prop)
		r.Add("relist-at-reconnect-expiry-cases", 1)
		r.Key(id)
		r.Set("signatures", strconv.FormatUint(core.Signature(), 16))
		r.Sample = map[string]interface{}{"offset": off.String(), "hold": hold.String(), "watch_calls": watchSummary(srv.Watches())}
	}}
}


// e4StatusAtRelistCase: a Status frame (e.g. 410 Gone) arrives on the watch
// stream at (almost) the instant a relist is consumed and the watcher is reset.
// Afterwards the controller must still follow the server: later events are
// applied, and after one further relist the cache equals the server.
func e4StatusAtRelistCase(seed uint64, n int) Case {
	id := fmt.Sprintf("E4/status-frame-at-relist/%d/%d", seed, n)
	// even n: the frame around the release, nobody held; odd n: the watcher is held at its
	// log points, a plain event keeps it busy, the Status frame (in front of the next event)
	// and the reset both arrive while it is busy
	hold := []time.Duration{0, 200 * time.Microsecond, 0, 500 * time.Microsecond}[n%4]
	off := time.Duration(n/4%12-6) * 50 * time.Microsecond
	if hold > 0 {
		off = time.Duration(n/4%8) * hold / 8
	}
	return Case{ID: id, Desc: map[string]interface{}{"seed": seed, "n": n, "frame_offset_from_list_release": off.String(), "hold": hold.String(), "what": "Status frame on the old stream while the relist resets the watcher"}, Bubble: true, Run: func(r *Res) {
		rng := kit.NewRng(kit.Mix(seed, uint64(n)+4800))
		P := 10 * time.Second
		plan := &kit.Plan{Seed: rng.U64(), PYield: 100, PSleep: 20, MaxSleep: 60 * time.Microsecond}
		if hold > 0 {
			plan.Targets = map[string]time.Duration{"watcher|": hold}
		}
		core := kit.NewCore(plan)
		srv := kit.NewPodServer(core)
		for _, nm := range []string{"a", "b", "c"} {
			srv.Put(kit.Pod("n0", nm, "", map[string]string{"l": "x"}))
		}
		release := make(chan struct{})
		srv.OnList = func(i int) {
			if i == 2 {
				<-release
			}
		}
		srv.WatchPlan = func(i int) kit.WatchFault {
			f := kit.NoWatchFault()
			if i == 1 {
				// a Status frame in front of the 1st (and 2nd) event of the first stream
				f.Frames = map[int][]watchEvent{1: {kit.StatusFrame()}, 2: {kit.StatusFrame()}}
			}
			return f
		}
		g, err := newCtlRig(core, srv, P, nil)
		if err != nil {
			close(release)
			r.Inc(err.Error())
			return
		}
		released := false
		defer func() {
			if !released {
				close(release)
			}
			g.shutdown(r, "C12")
		}()
		if !waitCh(g.ctl.Ready(), virtBound) {
			r.V("C03", "never-ready", "controller not ready")
			return
		}
		for i := 0; i < 3000 && len(srv.Lists()) < 2; i++ {
			time.Sleep(10 * time.Millisecond)
		}
		if len(srv.Lists()) != 2 {
			r.Inc("list #2 not observed")
			return
		}
		time.Sleep(time.Millisecond)
		srv.Put(kit.Pod("n0", "c", "", map[string]string{"l": "w"})) // a plain event first
		if hold == 0 {
			time.Sleep(5 * time.Millisecond)
		}
		if off < 0 {
			srv.Put(kit.Pod("n0", "b", "", map[string]string{"l": "y"})) // Status frame + event now
			time.Sleep(-off)
			close(release)
		} else {
			close(release)
			time.Sleep(off)
			srv.Put(kit.Pod("n0", "b", "", map[string]string{"l": "y"}))
		}
		released = true
		time.Sleep(50 * time.Millisecond)
		srv.Put(kit.Pod("n0", "c", "", map[string]string{"l": "z"}))
		srv.Delete("n0", "a")
		// server quiet from here: at most one further relist later the cache equals it
		time.Sleep(P + P/5 + 2*time.Second)
		g.barrier()
		r.Add("convergence-checks", 1)
		want := kit.SnapOf(srv.Objects())
		got, _ := cacheSnap(g.ctl.Cache())
		if !got.Equal(want) {
			r.V("C03", "not-converged-after-relist", "a Status frame arrived on the watch stream %v relative to the consumption of list #2; the server then changed twice and went quiet; %v later (period %v) the cache is %v, the server %v; lists: %d; watch calls: %s\n%s", off, P+P/5+2*time.Second, P, got, want, len(srv.Lists()), watchSummary(srv.Watches()), kit.CensusText(kit.Census(), 8))
			return
		}
		r.Add("status-at-relist-cases", 1)
		r.Key(id)
		r.Sample = map[string]interface{}{"offset": off.String(), "lists": len(srv.Lists()), "watch_calls": watchSummary(srv.Watches())}
	}}
}


// e4BigCollectionCase: a collection of several hundred to a few thousand objects
// behind an API server that honours limit/continue, with a watch that never
// delivers anything.  Every completed list leaves the cache equal to the
// server, also for objects far down the collection.
func e4BigCollectionCase(seed uint64, n int) Case {
	id := fmt.Sprintf("E4/big-collection/%d/%d", seed, n)
	size := []int{520, 1003, 2500}[n%3]
	return Case{ID: id, Desc: map[string]interface{}{"seed": seed, "n": n, "objects": size, "what": "large collection, silent watch, server honours limit/continue"}, Bubble: true, Run: func(r *Res) {
		rng := kit.NewRng(kit.Mix(seed, uint64(n)+4900))
		core := kit.NewCore(&kit.Plan{Seed: rng.U64(), PYield: 20})
		srv := kit.NewPodServer(core)
		for i := 0; i < size; i++ {
			srv.Put(kit.Pod(fmt.Sprintf("n%d", i%3), fmt.Sprintf("p%04d", i), "", map[string]string{"l": "x"}))
		}
		srv.WatchPlan = func(int) kit.WatchFault { f := kit.NoWatchFault(); f.Block = true; return f }
		P := 10 * time.Second
		g, err := newCtlRig(core, srv, P, nil)
		if err != nil {
			r.Inc(err.Error())
			return
		}
		defer g.shutdown(r, "C12")
		if !waitCh(g.ctl.Ready(), virtBound) {
			r.V("C03", "never-ready", "controller not ready")
			return
		}
		for round := 0; round < 3; round++ {
			g.barrier()
			want := kit.SnapOf(srv.Objects())
			got, _ := cacheSnap(g.ctl.Cache())
			r.Add("per-list-checks", 1)
			if !got.Equal(want) {
				missing := 0
				for k := range want {
					if _, ok := got[k]; !ok {
						missing++
					}
				}
				r.V("C03", "not-converged-after-relist", "collection of %d objects, watch silent, round %d: after a completed list the cache holds %d objects, the server %d (%d missing from the cache)", size, round, len(got), len(want), missing)
				return
			}
			// changes everywhere in the collection, invisible to the (silent) watch
			for i := 0; i < 25; i++ {
				k := rng.Intn(size + 20)
				ns, nm := fmt.Sprintf("n%d", k%3), fmt.Sprintf("p%04d", k)
				if srv.Has(ns, nm) && rng.Chance(30) {
					srv.Delete(ns, nm)
				} else {
					srv.Put(kit.Pod(ns, nm, "", map[string]string{"l": "y"}))
				}
			}
			time.Sleep(P + P/5 + time.Second)
		}
		r.Add("big-collection-cases", 1)
		r.Key(id)
		r.Sample = map[string]interface{}{"objects": size, "lists": len(srv.Lists())}
	}}
}

// e4RelistThenWatchCase: a relist turns up a LARGE difference (the watch had
// been dead) and objects of that difference change again right after the
// list's snapshot, so that the watch session opened at the list's version
// delivers their events at once - while the relist's own events are (perhaps)
// still being handed to the subscribers.  Whatever the library does in between,
// a subscriber that replays its stream ends with the controller's cache, and
// the stream is well-formed (no Delete of an absent key, no Create of a present
// one).  There is no logger point inside the window: the case relies on the
// size of the difference and on being repeated.
func e4RelistThenWatchCase(seed uint64, n int) Case {
	id := fmt.Sprintf("E4/relist-then-watch/%d/%d", seed, n)
	diff := []int{2, 12, 60, 90}[n%4] // (+1 update, + up to 4 watch events: the whole burst fits every hand-off buffer)
	return Case{ID: id, Desc: map[string]interface{}{"seed": seed, "n": n, "mode": "relist-then-watch", "difference": diff}, Bubble: true, Run: func(r *Res) {
		rng := kit.NewRng(kit.Mix(seed, uint64(n)+4950))
		P := 10 * time.Second
		core := kit.NewCore(&kit.Plan{Seed: rng.U64(), PYield: []int{0, 0, 30, 100}[rng.Intn(4)]})
		srv := kit.NewPodServer(core)
		srv.Put(kit.Pod("n0", "a", "", map[string]string{"l": "x"}))
		// Watch sessions never connect (what happens meanwhile is only seen by the next
		// relist), except the one opened after a list whose snapshot was followed by
		// changes: that one delivers exactly those changes and ends.
		var nAfter atomic.Int32
		var healthy atomic.Bool
		srv.WatchPlan = func(i int) kit.WatchFault {
			f := kit.NoWatchFault()
			if healthy.CompareAndSwap(true, false) {
				f.CloseAfter = int(nAfter.Load())
			} else {
				f.Block = true
			}
			return f
		}
		var pmu sync.Mutex
		var pending func()
		var firedAt atomic.Int32
		srv.OnList = func(i int) {
			// (called right after the snapshot of list #i was taken)
			pmu.Lock()
			fn := pending
			pending = nil
			pmu.Unlock()
			if fn != nil {
				healthy.Store(true)
				fn()
				firedAt.Store(int32(i))
			}
		}
		lat := time.Duration(100+rng.Intn(400)) * time.Millisecond
		srv.ListPlan = func(i int) kit.ListFault { return kit.ListFault{Latency: lat} } // snapshot at the START of the call
		g, err := newCtlRig(core, srv, P, nil)
		if err != nil {
			r.Inc(err.Error())
			return
		}
		defer g.shutdown(r, "C12")
		sub, _ := g.ctl.Subscribe()
		mir := startMirror("root-subscriber", sub.Events(), sub.Ready(), sub.Cache())
		if !waitCh(g.ctl.Ready(), virtBound) {
			r.V("C03", "never-ready", "controller not ready")
			return
		}
		g.barrier()
		s0, _ := cacheSnap(g.ctl.Cache())
		mir.seed(s0)
		for round := 0; round < 3; round++ {
			// the difference: new objects (and an update of an old one), unseen by the dead watch
			names := make([]string, 0, diff)
			for i := 0; i < diff; i++ {
				nm := fmt.Sprintf("r%dp%04d", round, i)
				names = append(names, nm)
				srv.Put(kit.Pod(fmt.Sprintf("n%d", i%2), nm, "", map[string]string{"l": "x"}))
			}
			srv.Put(kit.Pod("n0", "a", "", map[string]string{"l": "x", "round": strconv.Itoa(round)}))
			// right after the next list's snapshot: some of them go away / change again
			k := 1 + rng.Intn(3)
			if k > diff {
				k = diff
			}
			nAfter.Store(int32(k + 1))
			firedAt.Store(0)
			pmu.Lock()
			pending = func() {
				for j := 0; j < k; j++ {
					nm := names[(len(names)-1-j*(len(names)/k))%len(names)]
					ns := "n0"
					if srv.Has("n1", nm) {
						ns = "n1"
					}
					if j%2 == 0 {
						srv.Delete(ns, nm)
					} else {
						srv.Put(kit.Pod(ns, nm, "", map[string]string{"l": "y"}))
					}
				}
				srv.Put(kit.Pod("n0", "a", "", map[string]string{"l": "x", "after": strconv.Itoa(round)}))
				r.Add("changes-right-after-a-list-snapshot", int64(k+1))
			}
			pmu.Unlock()
			// wait for the list AFTER the one whose snapshot was followed by the changes
			// ("after at most one further relist"), and a little for it to be consumed
			relisted := false
			for i := 0; i < 400 && !relisted; i++ {
				time.Sleep(P / 20)
				if f := int(firedAt.Load()); f > 0 {
					for _, lc := range srv.Lists() {
						if lc.N == f+1 && lc.Returned {
							relisted = true
						}
					}
				}
			}
			if !relisted {
				r.V("C03", "relist-stopped", "round %d: no two further lists within 20 periods", round)
				return
			}
			time.Sleep(100 * time.Millisecond)
			g.barrier()
			want := kit.SnapOf(srv.Objects())
			got, _ := cacheSnap(g.ctl.Cache())
			r.Add("post-list-checks", 1)
			if !got.Equal(want) {
				bad := ""
				for key, v := range want {
					if gv, ok := got[key]; !ok || gv != v {
						bad += fmt.Sprintf(" %s: cache %q server %q;", key, gv, v)
					}
				}
				r.V("C03", "not-converged", "round %d (difference of %d objects): two periods after the server stopped changing the cache holds %d objects, the server %d:%s lists %d watches %d", round, diff, len(got), len(want), bad, len(srv.Lists()), len(srv.Watches()))
				return
			}
			if core.Overruns() == 0 {
				r.Add("relist-then-watch-mirror-checks", 1)
				if ms := mir.snap(); !ms.Equal(got) {
					bad := ""
					for key := range ms {
						if _, ok := got[key]; !ok {
							bad += " +" + key
						}
					}
					for key, v := range got {
						if mv, ok := ms[key]; !ok || mv != v {
							bad += " !" + key
						}
					}
					r.V("C03", "mirror-diverged", "round %d: a relist with a difference of %d objects was followed at once by watch events for some of them; replaying the subscriber's stream gives a state that differs from the controller's cache at:%s (the events do not account for the difference, or arrived out of order); last events: %s", round, diff, bad, tailEvents(mir.events(), 6))
					return
				}
			}
			if core.Overruns() == 0 {
				mir.report(r, "C03")
			}
			mir.reportCacheClause(r)
		}
		r.Add("relist-then-watch-cases", 1)
		r.Key(id)
		r.Sample = map[string]interface{}{"mode": "relist-then-watch", "difference": diff, "lists": len(srv.Lists()), "watches": len(srv.Watches())}
	}}
}

// e4LostDeleteCase: round after round an object is learnt from the watch
// (Create, sometimes Updates) and its Delete is lost by the stream; the NEXT
// completed list - whichever its ordinal - must remove it ("after at most one
// further relist"), and the subscriber must be told.
func e4LostDeleteCase(seed uint64, n int) Case {
	id := fmt.Sprintf("E4/lost-delete/%d/%d", seed, n)
	return Case{ID: id, Desc: map[string]interface{}{"seed": seed, "n": n, "mode": "lost-delete"}, Bubble: true, Run: func(r *Res) {
		rng := kit.NewRng(kit.Mix(seed, uint64(n)+4970))
		P := 10 * time.Second
		core := kit.NewCore(&kit.Plan{Seed: rng.U64(), PYield: 50})
		srv := kit.NewPodServer(core)
		srv.Put(kit.Pod("n0", "a", "", map[string]string{"l": "x"}))
		srv.Put(kit.Pod("n1", "b", "", map[string]string{"l": "y"}))
		var dropAt atomic.Int32 // delivery index (per session) of the Delete that gets lost
		dropAt.Store(-1)
		srv.WatchPlan = func(i int) kit.WatchFault {
			f := kit.NoWatchFault()
			f.Drop = map[int]bool{}
			if d := int(dropAt.Load()); d >= 0 {
				f.Drop[d] = true
			}
			return f
		}
		fam := filterFamily()
		F := fam[[]int{0, 0, 2, 4}[rng.Intn(4)]]
		g, err := newCtlRig(core, srv, P, F)
		if err != nil {
			r.Inc(err.Error())
			return
		}
		defer g.shutdown(r, "C12")
		sub, _ := g.ctl.Subscribe()
		mir := startMirror("root-subscriber", sub.Events(), sub.Ready(), sub.Cache())
		if !waitCh(g.ctl.Ready(), virtBound) {
			r.V("C03", "never-ready", "controller not ready")
			return
		}
		g.barrier()
		s0, _ := cacheSnap(g.ctl.Cache())
		mir.seed(s0)
		waitList := func() bool {
			have := 0
			for _, lc := range srv.Lists() {
				if lc.Returned {
					have++
				}
			}
			for i := 0; i < 400; i++ {
				time.Sleep(P / 20)
				now := 0
				for _, lc := range srv.Lists() {
					if lc.Returned {
						now++
					}
				}
				if now > have {
					time.Sleep(100 * time.Millisecond)
					g.barrier()
					return true
				}
			}
			return false
		}
		rounds := 3 + n%4
		for round := 0; round < rounds; round++ {
			// some rounds skip a list first, so that both parities of the list ordinal are met
			if rng.Chance(40) {
				if !waitList() {
					r.V("C03", "relist-stopped", "no list within 20 periods")
					return
				}
			}
			nm := fmt.Sprintf("x%d", round%2) // the same two names come back
			ups := rng.Intn(3)
			dropAt.Store(int32(1 + ups))
			// (the session opened after the last list has delivered nothing so far: the
			// Create below is its delivery 0, the Delete its delivery 1+ups)
			lbl := map[string]string{"l": "x"}
			srv.Put(kit.Pod("n0", nm, "", lbl))
			for i := 0; i < ups; i++ {
				srv.Put(kit.Pod("n0", nm, "", map[string]string{"l": "x", "u": strconv.Itoa(i)}))
			}
			g.barrier()
			if c, _ := cacheSnap(g.ctl.Cache()); F.Eval(kit.Pod("n0", nm, "", lbl)) {
				if _, ok := c["n0/"+nm]; !ok {
					r.Add("watch-create-not-seen", 1) // (nothing to lose then; not judged here)
				}
			}
			srv.Delete("n0", nm) // lost by the stream
			g.barrier()
			if !waitList() {
				r.V("C03", "relist-stopped", "no list within 20 periods")
				return
			}
			want := F.Accepted(srv.Objects())
			got, _ := cacheSnap(g.ctl.Cache())
			r.Add("lost-delete-checks", 1)
			if !got.Equal(want) {
				r.V("C03", "not-converged", "round %d: n0/%s was learnt from the watch, its Delete was lost by the stream; one completed list later (list #%d, server quiet) the cache is %v, the server's accepted objects are %v", round, nm, len(srv.Lists()), got, want)
				return
			}
			if core.Overruns() == 0 {
				if ms := mir.snap(); !ms.Equal(got) {
					r.V("C03", "mirror-diverged", "round %d: subscriber mirror %v != cache %v; last events: %s", round, ms, got, tailEvents(mir.events(), 6))
					return
				}
				mir.report(r, "C03")
			}
			dropAt.Store(-1)
		}
		r.Add("lost-delete-cases", 1)
		r.Key(id)
		r.Sample = map[string]interface{}{"mode": "lost-delete", "filter": F.String(), "lists": len(srv.Lists()), "rounds": rounds}
	}}
}

func init() {
	register("E4", func(tier string, seed uint64) []Case {
		var cases []Case
		n := tierPick(tier, 120, 60000)
		for i := 0; i < n; i++ {
			cases = append(cases, e4Case(seed, i, "mixed", i%10 == 9))
		}
		m := tierPick(tier, 16, 4000)
		for i := 0; i < m; i++ {
			cases = append(cases, e4Case(seed, i, "watch-dead-block", false))
			cases = append(cases, e4Case(seed, i, "watch-dead-error", false))
			cases = append(cases, e4Case(seed, i, "watch-silent", false))
		}
		for i := 0; i < tierPick(tier, 60, 15000); i++ {
			cases = append(cases, e4RaceCase(seed, i))
		}
		for i := 0; i < tierPick(tier, 120, 2400); i++ {
			cases = append(cases, e4RetryRaceCase(seed, i))
		}
		for i := 0; i < tierPick(tier, 72, 1440); i++ {
			cases = append(cases, e4StatusAtRelistCase(seed, i))
		}
		for i := 0; i < tierPick(tier, 6, 60); i++ {
			cases = append(cases, e4BigCollectionCase(seed, i))
		}
		for i := 0; i < tierPick(tier, 96, 4800); i++ {
			cases = append(cases, e4RelistThenWatchCase(seed, i))
		}
		for i := 0; i < tierPick(tier, 48, 2400); i++ {
			cases = append(cases, e4LostDeleteCase(seed, i))
		}
		return cases
	})
}
