package engines

// E18: typed packages are faithful instances of the generic core (C20):
// (a) differential monitoring typed vs untyped on one fake server,
// (b) REST request recorder for the typed clients.

import (
	"bytes"
	"context"
	"fmt"
	"io"
	"net/http"
	goruntime "runtime"
	"sort"
	"strings"
	"sync"
	"time"

	logutil "github.com/boz/go-logutil"
	"github.com/boz/kcache"
	"github.com/boz/kcache/client"
	"github.com/boz/kcache/filter"
	metav1 "k8s.io/apimachinery/pkg/apis/meta/v1"
	"k8s.io/apimachinery/pkg/runtime"
	"k8s.io/client-go/kubernetes"
	"k8s.io/client-go/rest"

	"verifharness/kit"
)

type tSub struct {
	ready, done <-chan struct{}
	close       func()
	refilter    func(filter.Filter) error
	list        func() ([]metav1.Object, error)
	get         func(ns, name string) (metav1.Object, error)
	start       func() <-chan kcache.Event // starts forwarding the typed stream
}

type tCtl struct {
	ready, done         <-chan struct{}
	close               func()
	err                 func() error
	refilter            func(filter.Filter) error
	list                func() ([]metav1.Object, error)
	get                 func(ns, name string) (metav1.Object, error)
	subscribe           func() (*tSub, error)
	subscribeWithFilter func(filter.Filter) (*tSub, error)
	subscribeForFilter  func() (*tSub, error)
	clone               func() (*tCtl, error)
	cloneWithFilter     func(filter.Filter) (*tCtl, error)
	cloneForFilter      func() (*tCtl, error)
	monitor             func(kcache.Handler) (kcache.Monitor, error)
	unitary             func(logutil.Log, kcache.Handler) (kcache.Monitor, error)
}

type typedPkg struct {
	name          string
	newList       func() runtime.Object
	newObj        func(ns, name string, labels map[string]string) runtime.Object
	isType        func(metav1.Object) bool
	build         func(context.Context, logutil.Log, client.Client) (*tCtl, error)
	newController func(context.Context, logutil.Log, kubernetes.Interface, string) (*tCtl, error)
	builderReuse  func() []string
}

var typedPkgs []*typedPkg

func typedPkgByName(n string) *typedPkg {
	for _, p := range typedPkgs {
		if p.name == n {
			return p
		}
	}
	return nil
}

// untypedFacade presents a kcache.Controller through the same closures.
func untypedSub(s kcache.Subscription, refilter func(filter.Filter) error) *tSub {
	return &tSub{ready: s.Ready(), done: s.Done(), close: s.Close, refilter: refilter,
		list: s.Cache().List, get: s.Cache().Get,
		start: func() <-chan kcache.Event { return s.Events() }}
}

func untypedCtl(c kcache.Controller, refilter func(filter.Filter) error) *tCtl {
	return &tCtl{ready: c.Ready(), done: c.Done(), close: c.Close, err: c.Error, refilter: refilter,
		list: c.Cache().List, get: c.Cache().Get,
		subscribe: func() (*tSub, error) {
			s, err := c.Subscribe()
			if err != nil {
				return nil, err
			}
			return untypedSub(s, nil), nil
		},
		subscribeWithFilter: func(f filter.Filter) (*tSub, error) {
			s, err := c.SubscribeWithFilter(f)
			if err != nil {
				return nil, err
			}
			return untypedSub(s, s.Refilter), nil
		},
		subscribeForFilter: func() (*tSub, error) {
			s, err := c.SubscribeForFilter()
			if err != nil {
				return nil, err
			}
			return untypedSub(s, s.Refilter), nil
		},
		clone: func() (*tCtl, error) {
			x, err := c.Clone()
			if err != nil {
				return nil, err
			}
			return untypedCtl(x, nil), nil
		},
		cloneWithFilter: func(f filter.Filter) (*tCtl, error) {
			x, err := c.CloneWithFilter(f)
			if err != nil {
				return nil, err
			}
			return untypedCtl(x, x.Refilter), nil
		},
		cloneForFilter: func() (*tCtl, error) {
			x, err := c.CloneForFilter()
			if err != nil {
				return nil, err
			}
			return untypedCtl(x, x.Refilter), nil
		},
		monitor: func(h kcache.Handler) (kcache.Monitor, error) { return kcache.NewMonitor(c, h) },
	}
}

// side is one of the two systems under comparison with everything hanging off it.
type side struct {
	name    string
	ctl     *tCtl
	nodes   map[string]*tCtl   // controller-like nodes by label
	subs    map[string]*tSub   // subscriptions by label
	mirrors map[string]*mirror // drained streams by label
	mons    map[string]*recHandler
	monObjs map[string]kcache.Monitor
}

func newSide(name string, c *tCtl) *side {
	return &side{name: name, ctl: c, nodes: map[string]*tCtl{"root": c}, subs: map[string]*tSub{}, mirrors: map[string]*mirror{}, mons: map[string]*recHandler{}, monObjs: map[string]kcache.Monitor{}}
}

func typedOnly(p *typedPkg, l []metav1.Object) kit.Snap {
	s := kit.Snap{}
	for _, o := range l {
		if p.isType(o) {
			s[kit.Key(o)] = o.GetResourceVersion()
		}
	}
	return s
}

func seqOf(p *typedPkg, ev []evrec) []string {
	var out []string
	for _, e := range ev {
		if e.Obj != nil && !p.isType(e.Obj) {
			continue
		}
		out = append(out, e.String())
	}
	return out
}

type e18desc struct {
	Pkg     string `json:"package"`
	Seed    uint64 `json:"seed"`
	N       int    `json:"n"`
	Foreign string `json:"foreign"` // none | watch | list
}

func e18DiffCase(pkg string, seed uint64, n int, foreign string) Case {
	d := e18desc{pkg, seed, n, foreign}
	id := fmt.Sprintf("E18/diff/%s/%d/%d/%s", pkg, seed, n, foreign)
	return Case{ID: id, Desc: d, Bubble: true, Run: func(r *Res) {
		p := typedPkgByName(pkg)
		if p == nil {
			r.Inc("typed package facade missing: " + pkg)
			return
		}
		rng := kit.NewRng(kit.Mix(seed, uint64(n)+1800+kit.HashStr(pkg)))
		core := kit.NewCore(&kit.Plan{Seed: rng.U64(), PYield: 100, PSleep: 20, MaxSleep: 50 * time.Microsecond})
		log := kit.NewLog(core)
		srv := kit.NewServer(core, p.newList)
		u := smallUniverse()
		put := func() {
			ns, nm := u.nss[rng.Intn(2)], u.names[rng.Intn(3)]
			if srv.Has(ns, nm) && rng.Chance(25) {
				srv.Delete(ns, nm)
				return
			}
			srv.Put(p.newObj(ns, nm, u.labels[rng.Intn(len(u.labels))]))
		}
		for i := 0; i < 3; i++ {
			put()
		}
		if foreign == "list" {
			srv.ListPlan = func(int) kit.ListFault { return kit.ListFault{Kind: kit.ListHetero} }
		}
		if foreign == "watch" {
			srv.WatchPlan = func(int) kit.WatchFault {
				f := kit.NoWatchFault()
				f.Frames = map[int][]watchEvent{2: {kit.ForeignFrame(9000)}, 7: {kit.ForeignFrame(9001)}}
				return f
			}
		}
		ctx, cancel := ctxWithCancel()
		defer cancel()
		tc, err := p.build(ctx, log, srv)
		if err != nil {
			r.V("C20", "typed-build-error", "%s.BuildController: %v", pkg, err)
			return
		}
		uc0, err := kcache.NewController(ctx, log, srv)
		if err != nil {
			r.Inc(err.Error())
			return
		}
		sides := []*side{newSide("typed", tc), newSide("untyped", untypedCtl(uc0, nil))}
		fam := filterFamily()
		fA, fB := fam[2], fam[4]
		// identical construction on both sides
		for _, s := range sides {
			var e error
			note := func(what string, err error) {
				if err != nil && e == nil {
					e = fmt.Errorf("%s: %v", what, err)
				}
			}
			sub, err := s.ctl.subscribe()
			note("Subscribe", err)
			swf, err := s.ctl.subscribeWithFilter(fA.Build())
			note("SubscribeWithFilter", err)
			sff, err := s.ctl.subscribeForFilter()
			note("SubscribeForFilter", err)
			cl, err := s.ctl.clone()
			note("Clone", err)
			cwf, err := s.ctl.cloneWithFilter(fB.Build())
			note("CloneWithFilter", err)
			cff, err := s.ctl.cloneForFilter()
			note("CloneForFilter", err)
			if e != nil {
				r.V("C20", "surface-error", "%s side of %s: %v", s.name, pkg, e)
				return
			}
			s.subs["sub"], s.subs["subwf"], s.subs["subff"] = sub, swf, sff
			s.nodes["clone"], s.nodes["clonewf"], s.nodes["cloneff"] = cl, cwf, cff
			for lbl, c := range map[string]*tCtl{"clone": cl, "clonewf": cwf, "cloneff": cff} {
				x, err := c.subscribe()
				if err != nil {
					r.V("C20", "surface-error", "%s side: Subscribe on %s: %v", s.name, lbl, err)
					return
				}
				s.subs[lbl+"/sub"] = x
			}
			stalled, err := s.ctl.subscribe()
			if err == nil {
				s.subs["stalled"] = stalled
			}
			for lbl, sb := range s.subs {
				if lbl == "stalled" {
					continue
				}
				s.mirrors[lbl] = startMirror(s.name+":"+lbl, sb.start(), sb.ready, nil)
			}
			h := newRecHandler()
			m, err := s.ctl.monitor(h)
			if err != nil {
				r.V("C20", "surface-error", "%s side: NewMonitor: %v", s.name, err)
				return
			}
			s.mons["monitor"], s.monObjs["monitor"] = h, m
			hc := newRecHandler()
			mc, err := cwf.monitor(hc)
			if err != nil {
				r.V("C20", "surface-error", "%s side: NewMonitor on filtered clone: %v", s.name, err)
				return
			}
			s.mons["clonewf/monitor"], s.monObjs["clonewf/monitor"] = hc, mc
		}
		for _, s := range sides {
			if !waitCh(s.ctl.ready, virtBound) {
				r.V("C20", "never-ready", "%s side of %s never ready", s.name, pkg)
				return
			}
		}
		seenT, seenU := map[string]int{}, map[string]int{}
		compare := func(when string) bool {
			core.Barrier()
			ty, un := sides[0], sides[1]
			ok := true
			// readiness / doneness of every node
			for lbl := range ty.nodes {
				if isClosed(ty.nodes[lbl].ready) != isClosed(un.nodes[lbl].ready) || isClosed(ty.nodes[lbl].done) != isClosed(un.nodes[lbl].done) {
					r.V("C20", "lifecycle-differs", "%s %s: node %s typed ready/done=%v/%v untyped=%v/%v", pkg, when, lbl, isClosed(ty.nodes[lbl].ready), isClosed(ty.nodes[lbl].done), isClosed(un.nodes[lbl].ready), isClosed(un.nodes[lbl].done))
					ok = false
				}
				tl, e1 := ty.nodes[lbl].list()
				ul, e2 := un.nodes[lbl].list()
				hasNil := false
				for _, o := range tl {
					if o == nil {
						hasNil = true
					}
				}
				if hasNil {
					r.V("C20", "typed-list-nil-entry", "%s %s: node %s: the typed List() returned %d entries of which some are nil (an object of another type was not skipped)", pkg, when, lbl, len(tl))
					return false
				}
				if (e1 == nil) != (e2 == nil) {
					r.V("C20", "cache-error-differs", "%s %s: node %s List error typed=%v untyped=%v", pkg, when, lbl, e1, e2)
					ok = false
					continue
				}
				r.Add("cache-comparisons", 1)
				if a, b := kit.SnapOf(tl), typedOnly(p, ul); !a.Equal(b) {
					r.V("C20", "cache-differs", "%s %s: node %s typed cache %v, untyped cache restricted to the type %v", pkg, when, lbl, a, b)
					ok = false
				}
				for _, o := range ul {
					if !p.isType(o) {
						r.Add("foreign-objects-in-untyped-cache", 1)
						if g, err := ty.nodes[lbl].get(o.GetNamespace(), o.GetName()); g != nil && err == nil {
							r.V("C20", "foreign-object-not-skipped", "%s: typed Get returned a %T for the foreign object", pkg, g)
							ok = false
						}
					}
				}
				// Get agrees with List on the typed side
				for _, o := range tl {
					g, err := ty.nodes[lbl].get(o.GetNamespace(), o.GetName())
					if err != nil || g == nil || g.GetResourceVersion() != o.GetResourceVersion() {
						r.V("C20", "typed-get-differs", "%s %s: node %s typed Get(%s) = %v,%v but List has version %s", pkg, when, lbl, kit.Key(o), g, err, o.GetResourceVersion())
						ok = false
					}
				}
			}
			for lbl := range ty.subs {
				if isClosed(ty.subs[lbl].ready) != isClosed(un.subs[lbl].ready) || isClosed(ty.subs[lbl].done) != isClosed(un.subs[lbl].done) {
					r.V("C20", "lifecycle-differs", "%s %s: subscription %s typed ready/done=%v/%v untyped=%v/%v", pkg, when, lbl, isClosed(ty.subs[lbl].ready), isClosed(ty.subs[lbl].done), isClosed(un.subs[lbl].ready), isClosed(un.subs[lbl].done))
					ok = false
				}
			}
			if core.Overruns() == 0 {
				// Each step is one server mutation (at most one event per stream) or one
				// Refilter per node (one batch per stream, whose internal order is free):
				// the events that arrived since the previous comparison are compared as
				// a multiset, the sequence of steps keeps the order across batches.
				cmp := func(kind, lbl string, a, b []string) {
					ka := seenT[kind+lbl]
					kb := seenU[kind+lbl]
					na, nb := append([]string(nil), a[min(ka, len(a)):]...), append([]string(nil), b[min(kb, len(b)):]...)
					seenT[kind+lbl], seenU[kind+lbl] = len(a), len(b)
					sort.Strings(na)
					sort.Strings(nb)
					if strings.Join(na, ";") != strings.Join(nb, ";") {
						r.V("C20", kind+"-differ", "%s %s: %s %s since the previous comparison: typed %v, untyped (restricted to the type) %v", pkg, when, kind, lbl, na, nb)
						ok = false
					}
				}
				for lbl := range ty.mirrors {
					r.Add("stream-comparisons", 1)
					cmp("events", lbl, seqOf(p, ty.mirrors[lbl].events()), seqOf(p, un.mirrors[lbl].events()))
				}
				for lbl := range ty.mons {
					r.Add("callback-comparisons", 1)
					cmp("callbacks", lbl, callSeq(p, ty.mons[lbl].snapshot(), r, pkg), callSeq(p, un.mons[lbl].snapshot(), nil, pkg))
				}
			}
			return ok
		}
		if !compare("after ready") {
			return
		}
		steps := 30 + rng.Intn(30)
		for s := 0; s < steps; s++ {
			switch x := rng.Intn(10); {
			case x < 7:
				put()
			case x < 8:
				f := fam[rng.Intn(len(fam))]
				for _, sd := range sides {
					sd.subs["subff"].refilter(f.Build())
					sd.nodes["cloneff"].refilter(f.Build())
				}
			case x < 9:
				f := fam[rng.Intn(len(fam))]
				for _, sd := range sides {
					sd.subs["subwf"].refilter(f.Build())
					sd.nodes["clonewf"].refilter(f.Build())
				}
			default:
				time.Sleep(time.Duration(1+rng.Intn(300)) * time.Millisecond)
			}
			// refilters on the two sides are separate calls: compare only at barriers,
			// and keep both sides quiescent around a refilter so the streams are
			// determined by the server log
			{
				if !compare(fmt.Sprintf("step %d", s)) {
					return
				}
			}
		}
		// overflow: a stalled subscriber on both sides holds an in-order subsequence
		for i := 0; i < 130; i++ {
			put()
			if i%20 == 19 {
				core.Barrier()
			}
		}
		core.Barrier()
		log0 := srv.LogCopy()
		for _, sd := range sides {
			ch := sd.subs["stalled"].start()
			var got []evrec
			held := 0
			deadline := time.After(time.Second)
		drain:
			for {
				select {
				case e, ok := <-ch:
					if !ok {
						break drain
					}
					held++
					if !p.isType(e.Resource()) {
						continue // the injected foreign object is not in the server log
					}
					got = append(got, evrec{Type: e.Type(), Key: kit.Key(e.Resource()), RV: e.Resource().GetResourceVersion()})
				case <-deadline:
					break drain
				}
			}
			r.Add("overflow-checks", 1)
			var sent []evrec
			for _, e := range log0 {
				m, _ := e.Obj.(metav1.Object)
				typ := kcacheUpdate
				switch e.Type {
				case "ADDED":
					typ = kcacheCreate
				case "DELETED":
					typ = kcacheDelete
				}
				sent = append(sent, evrec{Type: typ, Key: kit.Key(m), RV: m.GetResourceVersion()})
			}
			j := 0
			for _, e := range got {
				for j < len(sent) && !sameEvent(e, sent[j]) {
					j++
				}
				if j == len(sent) {
					r.V("C20", "overflow-not-subsequence", "%s side of %s: stalled subscriber's stream is not an in-order subsequence of the server log", sd.name, pkg)
					break
				}
				j++
			}
			// the two foreign frames of the watch variant occupy slots of whatever buffer
			// sits upstream of the typed adapter, which then skips them: they are not
			// events of this type and cannot be counted on the typed side
			need := kcache.EventBufsiz
			if foreign == "watch" && sd.name == "typed" {
				need -= 2
			}
			if held < need {
				r.V("C20", "overflow-lost-too-much", "%s side of %s: stalled subscriber holds %d events (< %d)", sd.name, pkg, held, need)
			}
		}
		// close: lifecycle equal on both sides
		for _, sd := range sides {
			sd.subs["subwf"].close()
			sd.nodes["clone"].close()
			sd.monObjs["monitor"].Close()
		}
		core.Barrier()
		for _, lbl := range []string{"subwf", "clone/sub"} {
			if a, b := isClosed(sides[0].subs[lbl].done), isClosed(sides[1].subs[lbl].done); a != b || !a {
				r.V("C20", "lifecycle-differs", "%s: after Close, %s done typed=%v untyped=%v", pkg, lbl, a, b)
			}
		}
		if a, b := isClosed(sides[0].monObjs["monitor"].Done()), isClosed(sides[1].monObjs["monitor"].Done()); a != b || !a {
			r.V("C20", "lifecycle-differs", "%s: after Close, monitor done typed=%v untyped=%v", pkg, a, b)
		}
		if n%2 == 1 {
			// the caller's context ends: both controllers (and everything below) must stop
			cancel()
			for _, sd := range sides {
				if !waitCh(sd.ctl.done, 10*time.Minute) {
					r.V("C20", "lifecycle-differs", "%s: 10 virtual minutes after the context passed to the constructor was cancelled the %s controller is still running (the other side: done=%v)", pkg, sd.name, isClosed(sides[1].ctl.done) && isClosed(sides[0].ctl.done))
					within(sd.ctl.close)
				}
			}
			r.Add("context-cancel-lifecycle-checks", 1)
		}
		for _, sd := range sides {
			if !within(sd.ctl.close) {
				r.V("C12", "close-hang", "%s side Close() hung", sd.name)
				return
			}
		}
		core.Barrier()
		// after shutdown the typed surface answers like the untyped one (an error, not
		// "object does not exist")
		for lbl := range sides[0].nodes {
			_, te := sides[0].nodes[lbl].get("n0", "a")
			_, ue := sides[1].nodes[lbl].get("n0", "a")
			_, tle := sides[0].nodes[lbl].list()
			_, ule := sides[1].nodes[lbl].list()
			r.Add("post-shutdown-read-comparisons", 1)
			if (te == nil) != (ue == nil) || (tle == nil) != (ule == nil) {
				r.V("C20", "post-shutdown-read-differs", "%s: after the controllers stopped, node %s: typed Get error=%v List error=%v, untyped Get error=%v List error=%v", pkg, lbl, te, tle, ue, ule)
			}
		}
		for _, sd := range sides {
			for lbl, n := range sd.nodes {
				if !isClosed(n.done) {
					r.V("C20", "lifecycle-differs", "%s side of %s: node %s not done after root Close", sd.name, pkg, lbl)
				}
			}
		}
		if gs := kit.Census(); len(gs) > 0 {
			r.V("C12", "goroutine-leak", "%d library goroutines remain: %v", len(gs), kit.CensusKeys(gs))
		}
		r.Set("packages", pkg)
		r.Key(id)
		r.Sample = map[string]interface{}{"desc": d, "steps": steps, "server_events": len(log0)}
	}}
}

func lastN(s []string, n int) []string {
	if len(s) > n {
		return s[len(s)-n:]
	}
	return s
}

// callSeq renders a callback log restricted to the type.  For the typed side a
// callback carrying nil (foreign object) is only recorded in evidence.
func callSeq(p *typedPkg, calls []hcall, r *Res, pkg string) []string {
	var out []string
	for _, c := range calls {
		if c.Kind == "init" {
			s := kit.Snap{}
			for _, o := range c.Objs {
				if o != nil && p.isType(o) {
					s[kit.Key(o)] = o.GetResourceVersion()
				}
			}
			out = append(out, "init"+s.String())
			continue
		}
		if len(c.Objs) == 0 || c.Objs[0] == nil {
			if r != nil {
				r.Add("typed-callback-with-nil-for-foreign-object", 1)
			}
			continue
		}
		if !p.isType(c.Objs[0]) {
			continue
		}
		out = append(out, fmt.Sprintf("%s %s@%s", c.Kind, kit.Key(c.Objs[0]), c.Objs[0].GetResourceVersion()))
	}
	return out
}

// e18TailCase: everything a typed filtered subscription has been handed before
// its parent shut down must come out of the typed channel before that closes:
// after Refilter(accept-all) on N objects immediately followed by Close(), the
// typed stream holds all N creates or none (the refilter lost the race), never
// a truncated batch.
func e18TailCase(pkg string, seed uint64, n int) Case {
	id := fmt.Sprintf("E18/tail/%s/%d/%d", pkg, seed, n)
	return Case{ID: id, Desc: map[string]interface{}{"package": pkg, "what": "Refilter batch then immediate Close: all-or-nothing on the typed stream", "attempts": 12}, Bubble: true, Run: func(r *Res) {
		p := typedPkgByName(pkg)
		rng := kit.NewRng(kit.Mix(seed, uint64(n)+1880+kit.HashStr(pkg)))
		const N = 60
		for attempt := 0; attempt < 12; attempt++ {
			core := kit.NewCore(&kit.Plan{Seed: rng.U64(), PYield: 200})
			srv := kit.NewServer(core, p.newList)
			for i := 0; i < N; i++ {
				srv.Put(p.newObj("n0", fmt.Sprintf("o%02d", i), map[string]string{"l": "x"}))
			}
			ctx, cancel := ctxWithCancel()
			tc, err := p.build(ctx, kit.NewLog(core), srv)
			if err != nil {
				cancel()
				r.V("C20", "typed-build-error", "%v", err)
				return
			}
			sub, err := tc.subscribeForFilter()
			if err != nil || !waitCh(tc.ready, virtBound) {
				cancel()
				r.V("C20", "surface-error", "SubscribeForFilter: %v", err)
				return
			}
			sub.refilter(kit.TLabels(map[string]string{"l": "none"}).Build()) // ready, empty, no events
			core.Barrier()
			ch := sub.start()
			sub.refilter(kit.TNull().Build()) // N creates
			for y := 0; y < attempt%4; y++ {
				goruntime.Gosched()
			}
			if attempt%3 == 2 {
				time.Sleep(time.Duration(attempt) * time.Microsecond)
			}
			within(tc.close)
			cancel()
			core.Barrier()
			got := 0
			timeout := time.After(time.Second)
		drain:
			for {
				select {
				case _, ok := <-ch:
					if !ok {
						break drain
					}
					got++
				case <-timeout:
					break drain
				}
			}
			r.Add("tail-attempts", 1)
			if got == N {
				r.Add("tail-attempts-with-full-batch", 1)
			}
			if got != 0 && got != N {
				r.V("C20", "typed-stream-truncated-at-shutdown", "%s: Refilter(accept-all) over %d objects immediately followed by Close(): the typed stream delivered %d events before it was closed (the untyped core delivers every buffered event before closing: all %d or, if the refilter lost the race, none)", pkg, N, got, N)
				return
			}
		}
		r.Key(id)
		r.Sample = map[string]interface{}{"package": pkg, "objects": N}
	}}
}

// ---- (b) REST request recorder ---------------------------------------------------

type recTransport struct {
	mu         sync.Mutex
	reqs       []string
	kind       string
	apiVersion string
	watches    int
}

type blockingBody struct {
	ctx context.Context
}

func (b blockingBody) Read(p []byte) (int, error) { <-b.ctx.Done(); return 0, io.EOF }
func (b blockingBody) Close() error               { return nil }

func (t *recTransport) RoundTrip(req *http.Request) (*http.Response, error) {
	q := req.URL.Query()
	var keys []string
	for k := range q {
		keys = append(keys, k)
	}
	sort.Strings(keys)
	var qs []string
	for _, k := range keys {
		qs = append(qs, k+"="+strings.Join(q[k], ","))
	}
	t.mu.Lock()
	t.reqs = append(t.reqs, req.Method+" "+req.URL.Path+"?"+strings.Join(qs, "&"))
	t.mu.Unlock()
	h := http.Header{"Content-Type": []string{"application/json"}}
	if q.Get("watch") == "true" {
		t.mu.Lock()
		t.watches++
		first := t.watches == 1
		t.mu.Unlock()
		if first {
			// one event at version 9, then the server closes the stream: the client
			// must come back with resourceVersion=9 (and nothing else)
			frame := fmt.Sprintf(`{"type":"ADDED","object":{"kind":"%s","apiVersion":"%s","metadata":{"name":"w","namespace":"default","resourceVersion":"9"}}}`+"\n", t.kind, t.apiVersion)
			return &http.Response{StatusCode: 200, Header: h, Body: io.NopCloser(bytes.NewBufferString(frame)), Request: req}, nil
		}
		return &http.Response{StatusCode: 200, Header: h, Body: blockingBody{req.Context()}, Request: req}, nil
	}
	body := fmt.Sprintf(`{"kind":"%sList","apiVersion":"%s","metadata":{"resourceVersion":"7"},"items":[]}`, t.kind, t.apiVersion)
	return &http.Response{StatusCode: 200, Header: h, Body: io.NopCloser(bytes.NewBufferString(body)), Request: req}, nil
}

// independently written table: resource and API prefix per typed package
var e18Rest = map[string]struct{ prefix, resource, kind string }{
	"pod":                   {"/api/v1", "pods", "Pod"},
	"service":               {"/api/v1", "services", "Service"},
	"secret":                {"/api/v1", "secrets", "Secret"},
	"node":                  {"/api/v1", "nodes", "Node"},
	"event":                 {"/api/v1", "events", "Event"},
	"replicationcontroller": {"/api/v1", "replicationcontrollers", "ReplicationController"},
	"ingress":               {"/apis/networking.k8s.io/v1beta1", "ingresses", "Ingress"},
	"job":                   {"/apis/batch/v1", "jobs", "Job"},
	"daemonset":             {"/apis/apps/v1", "daemonsets", "DaemonSet"},
	"deployment":            {"/apis/apps/v1", "deployments", "Deployment"},
	"replicaset":            {"/apis/apps/v1", "replicasets", "ReplicaSet"},
	"statefulset":           {"/apis/apps/v1", "statefulsets", "StatefulSet"},
}

func e18RestCase(pkg, ns string) Case {
	id := fmt.Sprintf("E18/rest/%s/ns=%s", pkg, ns)
	return Case{ID: id, Desc: map[string]string{"package": pkg, "namespace": ns}, Bubble: false, Run: func(r *Res) {
		p := typedPkgByName(pkg)
		exp := e18Rest[pkg]
		av := strings.TrimPrefix(strings.TrimPrefix(exp.prefix, "/apis/"), "/api/")
		tr := &recTransport{kind: exp.kind, apiVersion: av}
		cs, err := kubernetes.NewForConfig(&rest.Config{Host: "http://kcache.invalid", Transport: tr})
		if err != nil {
			r.Inc("clientset: " + err.Error())
			return
		}
		ctx, cancel := ctxWithCancel()
		ctl, err := p.newController(ctx, kit.NullLog{}, cs, ns)
		if err != nil {
			cancel()
			r.V("C20", "typed-newcontroller-error", "%s.NewController: %v", pkg, err)
			return
		}
		deadline := time.After(20 * time.Second)
		select {
		case <-ctl.ready:
		case <-ctl.done:
			r.V("C20", "typed-client-list-failed", "%s.NewController(ns=%q) stopped before ready: %v; requests: %v", pkg, ns, ctl.err(), tr.reqs)
			cancel()
			return
		case <-deadline:
			r.Inc("typed controller over the in-memory transport not ready within 20s wall-clock")
			cancel()
			return
		}
		// wait for the watch request
		for i := 0; i < 600; i++ { // the re-watch comes after the library's 1 s retry delay
			tr.mu.Lock()
			n := len(tr.reqs)
			tr.mu.Unlock()
			if n >= 3 {
				break
			}
			time.Sleep(10 * time.Millisecond)
		}
		tr.mu.Lock()
		reqs := append([]string(nil), tr.reqs...)
		tr.mu.Unlock()
		nsPart := ""
		if ns != "" {
			nsPart = "/namespaces/" + ns
		}
		wantList := "GET " + exp.prefix + nsPart + "/" + exp.resource + "?"
		wantWatch := "GET " + exp.prefix + "/watch" + nsPart + "/" + exp.resource + "?resourceVersion=7&watch=true"
		wantRewatch := "GET " + exp.prefix + "/watch" + nsPart + "/" + exp.resource + "?resourceVersion=9&watch=true"
		r.Add("request-checks", 1)
		if len(reqs) < 2 {
			r.V("C20", "requests-missing", "%s ns=%q: expected a list and a watch request, saw %v", pkg, ns, reqs)
		} else {
			if reqs[0] != wantList {
				r.V("C20", "list-request-wrong", "%s ns=%q: list request is %q, expected %q", pkg, ns, reqs[0], wantList)
			}
			if reqs[1] != wantWatch {
				r.V("C20", "watch-request-wrong", "%s ns=%q: watch request is %q, expected %q", pkg, ns, reqs[1], wantWatch)
			}
			if len(reqs) < 3 {
				// real time (this case cannot run in a bubble): on an overloaded machine the
				// 1 s retry may simply not have happened yet
				r.Inc(fmt.Sprintf("%s ns=%q: no re-watch within 6 s wall-clock after the server closed the first stream; saw %v", pkg, ns, reqs))
			} else if reqs[2] != wantRewatch && reqs[2] != wantWatch {
				// (resuming at 7 is legitimate too: the session may end before the watcher
				// has taken the event out of the session's buffer; it is then replayed)
				r.V("C20", "rewatch-request-wrong", "%s ns=%q: after one event at version 9 and a stream close the re-watch request is %q, expected %q", pkg, ns, reqs[2], wantRewatch)
			}
		}
		cancel()
		select {
		case <-ctl.done:
		case <-time.After(20 * time.Second):
			r.V("C12", "close-hang", "typed controller over the REST transport did not stop on cancel")
		}
		r.Key(id)
		r.Sample = map[string]interface{}{"package": pkg, "namespace": ns, "requests": reqs}
	}}
}


// e18BuilderCase: a typed handler builder used again after Create() behaves as the
// core's builder does: handlers already created keep their callbacks.
func e18BuilderCase(pkg string) Case {
	id := fmt.Sprintf("E18/handler-builder-reuse/%s", pkg)
	return Case{ID: id, Desc: map[string]interface{}{"package": pkg, "what": "handler builder reused after Create()"}, Run: func(r *Res) {
		p := typedPkgByName(pkg)
		var ref []string
		note := func(s string) func(metav1.Object) { return func(metav1.Object) { ref = append(ref, s) } }
		hb := kcache.BuildHandler().OnCreate(note("first")).OnDelete(note("common-delete"))
		h1 := hb.Create()
		hb = hb.OnCreate(note("second"))
		h2 := hb.Create()
		o := p.newObj("n0", "a", nil).(metav1.Object)
		h1.OnCreate(o)
		h2.OnCreate(o)
		h1.OnDelete(o)
		h2.OnDelete(o)
		ref = append(ref, "u-first", "u-second", "u-common-update")
		got := p.builderReuse()
		r.Add("callback-comparisons", 1)
		if fmt.Sprint(got) != fmt.Sprint(ref) {
			r.V("C20", "callbacks-differ", "%s: a handler builder is given a new OnCreate after Create(); handlers created before and after are then invoked: the typed builders call %v, the core's builder (and a unitary builder behaving alike) calls %v: a handler created earlier was rewired", pkg, got, ref)
		}
		r.Key(id)
	}}
}

// e18UnreadCloseCase: subscriptions closed by their owner while events sit
// unread in them: on the typed side as on the untyped side Done() closes, the
// Events() channel is closed behind what was buffered and nothing is left behind.
func e18UnreadCloseCase(pkg string, seed uint64, n int) Case {
	id := fmt.Sprintf("E18/closed-with-unread-events/%s/%d/%d", pkg, seed, n)
	return Case{ID: id, Desc: map[string]interface{}{"package": pkg, "seed": seed, "n": n}, Bubble: true, Run: func(r *Res) {
		p := typedPkgByName(pkg)
		rng := kit.NewRng(kit.Mix(seed, uint64(n)+1890+kit.HashStr(pkg)))
		core := kit.NewCore(&kit.Plan{Seed: rng.U64(), PYield: 100, PSleep: 20, MaxSleep: 50 * time.Microsecond})
		log := kit.NewLog(core)
		srv := kit.NewServer(core, p.newList)
		ctx, cancel := ctxWithCancel()
		defer cancel()
		tc, err := p.build(ctx, log, srv)
		if err != nil {
			r.V("C20", "typed-build-error", "%v", err)
			return
		}
		uc0, err := kcache.NewController(ctx, log, srv)
		if err != nil {
			r.Inc(err.Error())
			return
		}
		uc := untypedCtl(uc0, nil)
		if !waitCh(tc.ready, virtBound) || !waitCh(uc.ready, virtBound) {
			r.Inc("controllers not ready")
			return
		}
		core.Barrier()
		baseline := kit.CensusKeys(kit.Census())
		for round := 0; round < 3; round++ {
			type side struct {
				name string
				sub  *tSub
			}
			var sides []side
			for _, c := range []struct {
				name string
				ctl  *tCtl
			}{{"typed", tc}, {"untyped", uc}} {
				sub, err := c.ctl.subscribe()
				if err != nil {
					r.V("C20", "subscribe-error", "%s: %v", c.name, err)
					return
				}
				sides = append(sides, side{c.name, sub})
			}
			core.Barrier()
			k := 1 + rng.Intn(6)
			if round == 2 {
				k = kcache.EventBufsiz + 30
			}
			for i := 0; i < k; i++ {
				srv.Put(p.newObj("n0", fmt.Sprintf("x%d", i%5), map[string]string{"l": "x"}))
			}
			core.Barrier()
			for _, sd := range sides {
				sd.sub.close()
			}
			held := map[string]int{}
			for _, sd := range sides {
				if !waitCh(sd.sub.done, virtBound) {
					r.V("C20", "lifecycle-differs", "%s side of %s: a subscription closed with %d unread events never becomes done", sd.name, pkg, k)
					return
				}
			}
			// a consumer that stops at Done() and never looks at Events() again must not
			// keep anything alive
			core.Barrier()
			if mid := kit.CensusKeys(kit.Census()); !equalStrings(baseline, mid) {
				r.V("C20", "lifecycle-differs", "%s: subscriptions with %d unread events were closed on both sides and are done; without anybody draining their Events() the library goroutine census is %d (was %d): left behind: %v", pkg, k, len(mid), len(baseline), diffStrings(mid, baseline))
				return
			}
			for _, sd := range sides {
				ch := sd.sub.start()
				drained := make(chan int, 1)
				go func() {
					c := 0
					for range ch {
						c++
					}
					drained <- c
				}()
				select {
				case c := <-drained:
					held[sd.name] = c
				case <-time.After(virtBound):
					r.V("C20", "lifecycle-differs", "%s side of %s: a subscription was closed with %d unread events; its Done() is closed but its Events() channel is never closed behind the buffered events", sd.name, pkg, k)
					return
				}
			}
			core.Barrier()
			r.Add("closed-with-unread-events-checks", 1)
			after := kit.CensusKeys(kit.Census())
			if !equalStrings(baseline, after) {
				r.V("C20", "lifecycle-differs", "%s: after subscriptions with %d unread events were closed on both sides, the library goroutine census is %d (was %d): left behind: %v", pkg, k, len(after), len(baseline), diffStrings(after, baseline))
				return
			}
			if k > kcache.EventBufsiz && held["typed"] < kcache.EventBufsiz {
				r.V("C20", "overflow-lost-too-much", "%s: the typed subscription closed after %d unread events still held %d (< %d)", pkg, k, held["typed"], kcache.EventBufsiz)
			}
		}
		tc.close()
		uc.close()
		waitCh(tc.done, virtBound)
		waitCh(uc.done, virtBound)
		cancel()
		core.Barrier()
		r.Key(id)
	}}
}

func init() {
	register("E18", func(tier string, seed uint64) []Case {
		var cases []Case
		pk := []string{"pod", "service", "secret", "node", "event", "replicationcontroller", "ingress", "job", "daemonset", "deployment", "replicaset", "statefulset"}
		n := tierPick(tier, 2, 400)
		for _, p := range pk {
			for i := 0; i < n; i++ {
				cases = append(cases, e18DiffCase(p, seed, i, "none"))
			}
			cases = append(cases, e18DiffCase(p, seed, 0, "watch"), e18DiffCase(p, seed, 0, "list"))
			if tier == "thorough" {
				for i := 1; i < 24; i++ {
					cases = append(cases, e18DiffCase(p, seed, i, "watch"), e18DiffCase(p, seed, i, "list"))
				}
			}
			for _, ns := range []string{"", "default", "kube-system"} {
				if p == "node" && ns != "" {
					continue // nodes are cluster scoped; only the all-namespaces form is meaningful
				}
				cases = append(cases, e18RestCase(p, ns))
			}
		}
		for _, p := range pk {
			for i := 0; i < tierPick(tier, 1, 12); i++ {
				cases = append(cases, e18TailCase(p, seed, i))
			}
		}
		for _, p := range pk {
			cases = append(cases, e18BuilderCase(p))
			for i := 0; i < tierPick(tier, 1, 10); i++ {
				cases = append(cases, e18UnreadCloseCase(p, seed, i))
			}
		}
		// the eight generated joins (and the double join) as instances of the join
		// template: E10's scenarios, reported under C20 as well
		for _, k := range e10Joins {
			for i := 0; i < tierPick(tier, 4, 150); i++ {
				cases = append(cases, e10As(e10Case(k, seed, i), "C20", nil))
			}
		}
		return cases
	})
}
