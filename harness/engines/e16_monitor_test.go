package engines

// E16: monitor callbacks: initialize once first, then one callback per event,
// serially (C16).

import (
	"fmt"
	"strconv"
	"strings"
	"sync"
	"time"

	"github.com/boz/kcache"
	"github.com/boz/kcache/types/pod"
	corev1 "k8s.io/api/core/v1"
	metav1 "k8s.io/apimachinery/pkg/apis/meta/v1"

	"verifharness/kit"
)

type e16desc struct {
	Seed     uint64 `json:"seed"`
	N        int    `json:"n"`
	Path     string `json:"path"`    // rootkit | typed | unitary
	Handler  string `json:"handler"` // instant | fast | slow | blocked
	CloseAt  string `json:"close"`   // none | before-ready | mid-stream | during-callback | publisher-before-ready
	Created  string `json:"created"` // before-ready | after-ready
	Events   int    `json:"events"`
	Overflow bool   `json:"overflow"`
}

// judgeCallbacks checks the callback log against the published sequence.
func judgeCallbacks(r *Res, label string, calls []hcall, sent []evrec, createdAt int, exact bool) {
	var got []evrec
	inits := 0
	for i, c := range calls {
		if c.Kind == "init" {
			inits++
			if i != 0 {
				r.V("C16", "init-not-first", "%s: OnInitialize was callback #%d", label, i)
			}
			continue
		}
		var o metav1.Object
		if len(c.Objs) > 0 {
			o = c.Objs[0]
		}
		if o == nil {
			r.V("C16", "callback-nil-object", "%s: callback #%d (%s) carried a nil object", label, i, c.Kind)
			return
		}
		got = append(got, evrec{Type: kcache.EventType(c.Kind), Key: kit.Key(o), RV: o.GetResourceVersion(), Obj: o})
	}
	if inits > 1 {
		r.V("C16", "init-twice", "%s: OnInitialize ran %d times", label, inits)
	}
	if len(got) > 0 && inits == 0 {
		r.V("C16", "callback-before-init", "%s: %d event callbacks but OnInitialize never ran", label, len(got))
	}
	r.Add("callbacks", int64(len(got)))
	if !exact {
		if n, why := checkSubsequence(got, sent); n < 0 {
			r.V("C16", "callbacks-not-in-order", "%s: %s", label, why)
		}
		return
	}
	if len(got) == 0 {
		if createdAt < len(sent) {
			r.V("C16", "callbacks-missing", "%s: %d events were published after the monitor was created, no callback ran", label, len(sent)-createdAt)
		}
		return
	}
	first := -1
	for i, s := range sent {
		if sameEvent(got[0], s) {
			first = i
			break
		}
	}
	if first < 0 || first > createdAt {
		r.V("C16", "callbacks-missing", "%s: first callback is for %s (published #%d); events from #%d on were published after the monitor was created", label, got[0], first, createdAt)
		return
	}
	for i, e := range got {
		idx := first + i
		if idx >= len(sent) {
			r.V("C16", "callback-extra", "%s: callback %d (%s) beyond the published sequence", label, i, e)
			return
		}
		s := sent[idx]
		if !sameEvent(e, s) {
			r.V("C16", "callback-mismatch", "%s: callback %d is %s, the event at that position of the stream is %s (wrong type/object, duplicate, omission or reordering)", label, i, e, s)
			return
		}
		if s.Obj != nil && e.Obj != s.Obj {
			r.V("C16", "callback-object-differs", "%s: callback %d carries a different object than the event %s", label, i, s)
			return
		}
	}
	if first+len(got) != len(sent) {
		r.V("C16", "callbacks-missing", "%s: callbacks end at published #%d of %d", label, first+len(got)-1, len(sent))
	}
}

func e16RootCase(seed uint64, n int, handlerKind, closeAt, created string, overflow bool) Case {
	rng0 := kit.NewRng(kit.Mix(seed, uint64(n)+1600+kit.HashStr(handlerKind+closeAt+created)))
	total := 20 + rng0.Intn(60)
	if overflow {
		total = 150 + rng0.Intn(150)
	}
	d := e16desc{seed, n, "rootkit", handlerKind, closeAt, created, total, overflow}
	id := fmt.Sprintf("E16/root/%d/%d/%s/%s/%s/of%v", seed, n, handlerKind, closeAt, created, overflow)
	return Case{ID: id, Desc: d, Bubble: true, Run: func(r *Res) {
		rng := rng0
		core := kit.NewCore(&kit.Plan{Seed: rng.U64(), PYield: 120, PSleep: 30, MaxSleep: 60 * time.Microsecond})
		g := newRootRig(core, nil)
		u := smallUniverse()
		// cache states the root has been through (index = number of applied wire events)
		var smu sync.Mutex
		states := []kit.Snap{{}}
		note := func() {
			s, _ := cacheSnap(g.root.Cache().Reader())
			smu.Lock()
			states = append(states, s)
			smu.Unlock()
		}
		nstates := func() int { smu.Lock(); defer smu.Unlock(); return len(states) }
		for i := 0; i < 3; i++ {
			g.root.Cache().Update(newEv(kcacheUpdate, kit.Pod(u.nss[i%2], u.names[i], strconv.Itoa(g.nextRV), u.labels[i+1])))
			g.nextRV++
			note()
		}
		h := newRecHandler()
		h.core = core
		gap := 200 * time.Microsecond
		switch handlerKind {
		case "fast":
			h.delay = gap / 4
		case "slow":
			h.delay = gap * 4
		}
		var release chan struct{}
		if handlerKind == "blocked" {
			release = make(chan struct{})
			h.block = release
		}
		// state index window of the init call
		initLo, initHi := -1, -1
		var initObjs kit.Snap
		var imu sync.Mutex
		wrap := &initSpy{recHandler: h, onInit: func(objs []metav1.Object) {
			imu.Lock()
			initHi = nstates() - 1
			initObjs = kit.SnapOf(objs)
			imu.Unlock()
		}}
		var mon kcache.Monitor
		var err error
		createdAt := 0
		preset := false
		mk := func() bool {
			var pub kcache.Publisher = g.root.Publisher()
			if created == "after-ready-prebuffered" {
				// events are already buffered in the monitor's subscription when its
				// goroutine runs for the first time (the publisher is ready)
				pub = &prebufPublisher{Publisher: pub, after: func() {
					createdAt = g.sentCount()
					preset = true
					for i := 0; i < 3; i++ {
						g.mutate(rng, u)
						note()
					}
				}}
			}
			mon, err = kcache.NewMonitor(pub, wrap)
			if err != nil {
				r.V("C16", "monitor-create-error", "%v", err)
				return false
			}
			if !preset {
				createdAt = g.sentCount()
			}
			h.mu.Lock()
			h.doneCh = mon.Done()
			h.mu.Unlock()
			return true
		}
		if created == "before-ready" {
			if !mk() {
				return
			}
			if closeAt == "before-ready" {
				if n%2 == 1 {
					for i := 0; i < 3; i++ {
						g.mutate(rng, u)
					}
					g.barrier()
				}
				mon.Close()
			}
			if closeAt == "cache-stopped-before-ready" {
				// the cache dies first (its context ends), the subscription lives on and
				// becomes ready: the monitor cannot read the content at readiness
				g.cancel()
				waitCh(g.root.Cache().Done(), virtBound)
				g.root.MakeReady()
				g.barrier()
				for _, c := range h.snapshot() {
					if c.Kind == "init" && len(c.Objs) != 3 {
						r.V("C16", "init-content-wrong", "the cache (holding 3 objects) had stopped when the publisher became ready; OnInitialize ran with %d objects", len(c.Objs))
					}
				}
				if c := h.snapshot(); len(c) > 0 && c[0].Kind != "init" {
					r.V("C16", "callback-before-init", "first callback is %s", c[0].Kind)
				}
				r.Add("no-callback-checks", 1)
				g.stop(r, "C12")
				r.Key(id)
				return
			}
			if closeAt == "publisher-before-ready" {
				if n%2 == 1 {
					// events reach the monitor's subscription although the publisher never
					// becomes ready (a publisher outside the library might do that): still no
					// callback, in particular none without OnInitialize
					for i := 0; i < 3; i++ {
						g.mutate(rng, u)
					}
					g.barrier()
				}
				g.root.Stop()
				if !waitCh(mon.Done(), virtBound) {
					r.V("C16", "monitor-not-done", "publisher stopped before readiness but the monitor is not done")
					return
				}
				g.barrier()
				if c := h.snapshot(); len(c) > 0 {
					r.V("C16", "callback-without-ready", "the publisher shut down before becoming ready, yet %d callback(s) ran (first: %s)", len(c), c[0].Kind)
				}
				r.Add("no-callback-checks", 1)
				g.stop(r, "C12")
				r.Key(id)
				return
			}
			g.barrier()
			imu.Lock()
			initLo = nstates() - 1
			imu.Unlock()
			g.root.MakeReady()
		} else {
			g.root.MakeReady()
			imu.Lock()
			initLo = nstates() - 1
			imu.Unlock()
			if !mk() {
				return
			}
		}
		closedAtSent := -1
		for i := 0; i < total; i++ {
			if _, err := g.mutate(rng, u); err != nil {
				r.V("C16", "publish-error", "%v", err)
				return
			}
			note()
			if handlerKind != "instant" {
				time.Sleep(gap)
			}
			if !overflow && i%20 == 19 {
				g.barrier()
				if handlerKind == "slow" {
					time.Sleep(25 * h.delay)
				}
			}
			if closeAt == "mid-stream" && i == total/2 {
				g.barrier()
				mon.Close()
				closedAtSent = g.sentCount()
			}
			if closeAt == "during-initialize" && i == 2 {
				// OnInitialize (slow handler) is still running; a burst of events is in flight
				// or buffered behind it at the very moment the monitor is closed
				for k := 0; k < 4+rng.Intn(8); k++ {
					g.mutate(rng, u)
					note()
				}
				mon.Close()
				closedAtSent = g.sentCount()
			}
			if closeAt == "during-callback" && i == total/2 {
				// the handler is (with delay>0) most likely inside a callback now
				mon.Close()
				closedAtSent = g.sentCount()
			}
		}
		if release != nil {
			g.barrier()
			close(release)
		}
		g.barrier()
		if handlerKind == "slow" {
			time.Sleep(time.Duration(total+5) * h.delay)
			g.barrier()
		}
		calls := h.snapshot()
		sent := g.sent
		label := fmt.Sprintf("untyped monitor (handler %s, close %s, created %s)", handlerKind, closeAt, created)
		h.mu.Lock()
		maxInfl, afterDn, runningAtDn := h.maxInfl, h.afterDn, h.runningAtDn
		h.mu.Unlock()
		if runningAtDn > afterDn {
			r.V("C16", "callback-after-done", "%s: Done() closed while a callback was still running (%d time(s))", label, runningAtDn-afterDn)
		}
		if maxInfl > 1 {
			r.V("C16", "callbacks-overlap", "%s: %d callbacks were running at once", label, maxInfl)
		}
		if afterDn > 0 {
			r.V("C16", "callback-after-done", "%s: %d callback(s) began after Done() was closed", label, afterDn)
		}
		switch closeAt {
		case "before-ready":
			if !waitCh(mon.Done(), virtBound) {
				r.V("C16", "monitor-not-done", "%s: closed before readiness but never done", label)
			}
			// closed before ready: at most the initialize call may have run
			judgeCallbacks(r, label, calls, sent, createdAt, false)
		case "mid-stream", "during-callback", "during-initialize":
			if !waitCh(mon.Done(), virtBound) {
				r.V("C16", "monitor-not-done", "%s: Close() but Done() never closes", label)
			}
			judgeCallbacks(r, label, calls, sent, createdAt, false)
			_ = closedAtSent
		default:
			exact := core.Overruns() == 0 && !overflow && handlerKind != "blocked"
			if handlerKind == "blocked" && total <= 90 {
				exact = core.Overruns() == 0
			}
			judgeCallbacks(r, label, calls, sent, createdAt, exact)
			if exact {
				r.Add("exact-stream-checks", 1)
			}
		}
		// init argument
		if len(calls) > 0 && calls[0].Kind == "init" {
			imu.Lock()
			lo, hi, io := initLo, initHi, initObjs
			imu.Unlock()
			match := false
			smu.Lock()
			// hi+1: the cache may already hold the update whose state the engine
			// records only after the publication returned
			for j := lo; j <= hi+1 && j < len(states); j++ {
				if j >= 0 && states[j].Equal(io) {
					match = true
				}
			}
			smu.Unlock()
			r.Add("init-content-checks", 1)
			if !match {
				r.V("C16", "init-content-wrong", "%s: OnInitialize got %v, which is none of the %d cache states between readiness and the call (at readiness: %v)", label, io, hi-lo+1, states[lo])
			}
		} else if closeAt == "none" {
			r.V("C16", "init-missing", "%s: the publisher became ready but OnInitialize never ran", label)
		}
		r.Set("variants", handlerKind+"/"+closeAt+"/"+created)
		r.Add("published", int64(len(sent)))
		g.stop(r, "C12")
		r.Key(id)
		r.Sample = map[string]interface{}{"desc": d, "callbacks": len(calls), "published": len(sent)}
	}}
}

// prebufPublisher publishes events right after the real Subscribe returned,
// i.e. before NewMonitor starts the monitor's goroutine.
type prebufPublisher struct {
	kcache.Publisher
	after func()
}

func (p *prebufPublisher) Subscribe() (kcache.Subscription, error) {
	s, err := p.Publisher.Subscribe()
	if err == nil {
		p.after()
	}
	return s, err
}

type initSpy struct {
	*recHandler
	onInit func([]metav1.Object)
}

func (s *initSpy) OnInitialize(objs []metav1.Object) {
	s.onInit(objs)
	s.recHandler.OnInitialize(objs)
}

// typed monitors over a real typed controller --------------------------------

func e16TypedCase(seed uint64, n int, unitary bool, emptyInit bool) Case {
	path := "typed"
	if unitary {
		path = "unitary"
	}
	d := e16desc{seed, n, path, "fast", "none", "before-ready", 40, false}
	id := fmt.Sprintf("E16/%s/%d/%d/empty=%v", path, seed, n, emptyInit)
	return Case{ID: id, Desc: d, Bubble: true, Run: func(r *Res) {
		rng := kit.NewRng(kit.Mix(seed, uint64(n)+1661))
		core := kit.NewCore(&kit.Plan{Seed: rng.U64(), PYield: 100, PSleep: 20, MaxSleep: 50 * time.Microsecond})
		srv := kit.NewPodServer(core)
		u := smallUniverse()
		if unitary {
			u = universe{nss: []string{"n0"}, names: []string{"a"}, labels: smallUniverse().labels}
		}
		if !emptyInit {
			u.mutate(rng, srv)
		}
		ctx, cancel := ctxWithCancel()
		defer cancel()
		ctl, err := pod.BuildController(ctx, kit.NewLog(core), srv)
		if err != nil {
			r.Inc(err.Error())
			return
		}
		var mu sync.Mutex
		var calls []hcall
		infl, maxInfl := 0, 0
		rec := func(kind string, ps ...*corev1.Pod) {
			mu.Lock()
			infl++
			if infl > maxInfl {
				maxInfl = infl
			}
			var objs []metav1.Object
			for _, p := range ps {
				if p == nil {
					objs = append(objs, nil)
				} else {
					objs = append(objs, p)
				}
			}
			calls = append(calls, hcall{Kind: kind, Objs: objs})
			mu.Unlock()
			core.Sleep(30 * time.Microsecond)
			mu.Lock()
			infl--
			mu.Unlock()
		}
		var handler pod.Handler
		if unitary {
			uh := pod.BuildUnitaryHandler().
				OnInitialize(func(p *corev1.Pod) { rec("init", p) }).
				OnCreate(func(p *corev1.Pod) { rec("create", p) }).
				OnUpdate(func(p *corev1.Pod) { rec("update", p) }).
				OnDelete(func(p *corev1.Pod) { rec("delete", p) }).Create()
			handler = pod.ToUnitary(kit.NewLog(core), uh)
		} else {
			handler = pod.BuildHandler().
				OnInitialize(func(ps []*corev1.Pod) { rec("init", ps...) }).
				OnCreate(func(p *corev1.Pod) { rec("create", p) }).
				OnUpdate(func(p *corev1.Pod) { rec("update", p) }).
				OnDelete(func(p *corev1.Pod) { rec("delete", p) }).Create()
		}
		mon, err := pod.NewMonitor(ctl, handler)
		if err != nil {
			r.V("C16", "monitor-create-error", "%v", err)
			return
		}
		if !waitCh(ctl.Ready(), virtBound) {
			r.V("C16", "never-ready", "typed controller not ready")
			return
		}
		core.Barrier()
		initWant := kit.SnapOf(srv.Objects())
		base := len(srv.LogCopy())
		for i := 0; i < 40; i++ {
			u.mutate(rng, srv)
			if i%15 == 14 {
				core.Barrier()
			}
		}
		core.Barrier()
		var sent []evrec
		for _, e := range srv.LogCopy()[base:] {
			m := e.Obj.(*corev1.Pod)
			typ := kcacheUpdate
			switch e.Type {
			case "ADDED":
				typ = kcacheCreate
			case "DELETED":
				typ = kcacheDelete
			}
			sent = append(sent, evrec{Type: typ, Key: kit.Key(m), RV: m.ResourceVersion})
		}
		mu.Lock()
		cs := append([]hcall(nil), calls...)
		mi := maxInfl
		mu.Unlock()
		label := path + " monitor"
		if mi > 1 {
			r.V("C16", "callbacks-overlap", "%s: %d callbacks at once", label, mi)
		}
		judgeCallbacks(r, label, cs, sent, 0, core.Overruns() == 0)
		if len(cs) > 0 && cs[0].Kind == "init" {
			got := kit.Snap{}
			for _, o := range cs[0].Objs {
				if o != nil {
					got[kit.Key(o)] = o.GetResourceVersion()
				}
			}
			r.Add("init-content-checks", 1)
			if !got.Equal(initWant) {
				r.V("C16", "init-content-wrong", "%s: OnInitialize got %v, the cache held %v at readiness", label, got, initWant)
			}
		} else if len(initWant) == 1 || !unitary {
			// (a unitary handler is, by its contract, not initialised with 0 or >1 objects)
			r.V("C16", "init-missing", "%s: the publisher became ready (cache content at readiness: %v) but OnInitialize never ran; %d other callbacks did", label, initWant, len(cs))
		}
		r.Add("exact-stream-checks", 1)
		mon.Close()
		if !waitCh(mon.Done(), virtBound) {
			r.V("C16", "monitor-not-done", "%s: Close() but never done", label)
		}
		if !within(func() { ctl.Close() }) {
			r.V("C12", "close-hang", "typed controller Close() hung")
			return
		}
		core.Barrier()
		if gs := kit.Census(); len(gs) > 0 {
			r.V("C12", "goroutine-leak", "%d library goroutines remain: %v", len(gs), kit.CensusKeys(gs))
		}
		r.Set("variants", path)
		r.Key(id)
		r.Sample = map[string]interface{}{"desc": d, "callbacks": len(cs), "published": len(sent)}
	}}
}

// e16TypedCloseCase: a typed monitor with slow callbacks is closed while a
// callback is running and more events are queued: when Done() closes, no
// callback may be running and none may start afterwards.  partial: the handler
// only registers some of the callbacks (the others must simply be skipped).
func e16TypedCloseCase(seed uint64, n int, partial string) Case {
	id := fmt.Sprintf("E16/typed-close/%d/%d/%s", seed, n, partial)
	return Case{ID: id, Desc: map[string]interface{}{"seed": seed, "n": n, "path": "typed", "close": "during-callback", "handler": partial}, Bubble: true, Run: func(r *Res) {
		rng := kit.NewRng(kit.Mix(seed, uint64(n)+1691+kit.HashStr(partial)))
		core := kit.NewCore(&kit.Plan{Seed: rng.U64(), PYield: 100})
		srv := kit.NewPodServer(core)
		u := smallUniverse()
		u.mutate(rng, srv)
		ctx, cancel := ctxWithCancel()
		defer cancel()
		ctl, err := pod.BuildController(ctx, kit.NewLog(core), srv)
		if err != nil {
			r.Inc(err.Error())
			return
		}
		var mu sync.Mutex
		var calls []hcall
		infl := 0
		var monDone <-chan struct{}
		afterDone := 0
		rec := func(kind string, p *corev1.Pod) {
			mu.Lock()
			infl++
			if monDone != nil && isClosed(monDone) {
				afterDone++
			}
			var o metav1.Object
			if p != nil {
				o = p
			}
			calls = append(calls, hcall{Kind: kind, Objs: []metav1.Object{o}})
			mu.Unlock()
			core.Sleep(time.Millisecond)
			mu.Lock()
			infl--
			mu.Unlock()
		}
		hb := pod.BuildHandler().OnInitialize(func(ps []*corev1.Pod) { rec("init", nil) })
		if partial != "no-create" {
			hb = hb.OnCreate(func(p *corev1.Pod) { rec("create", p) })
		}
		if partial != "no-update" {
			hb = hb.OnUpdate(func(p *corev1.Pod) { rec("update", p) })
		}
		if partial != "no-delete" {
			hb = hb.OnDelete(func(p *corev1.Pod) { rec("delete", p) })
		}
		mon, err := pod.NewMonitor(ctl, hb.Create())
		if err != nil {
			r.V("C16", "monitor-create-error", "%v", err)
			return
		}
		mu.Lock()
		monDone = mon.Done()
		mu.Unlock()
		if !waitCh(ctl.Ready(), virtBound) {
			r.V("C16", "never-ready", "typed controller not ready")
			return
		}
		core.Barrier()
		base := len(srv.LogCopy())
		for i := 0; i < 30; i++ {
			u.mutate(rng, srv)
		}
		running := -1
		if partial == "all" || n%2 == 0 {
			// close while callbacks (1ms each) are running and ~30 events are queued
			time.Sleep(time.Duration(2+rng.Intn(8))*time.Millisecond + 500*time.Microsecond)
			mon.Close()
			if !waitCh(mon.Done(), virtBound) {
				r.V("C16", "monitor-not-done", "typed monitor: Close() but Done() never closes")
				return
			}
			mu.Lock()
			running = infl
			mu.Unlock()
			r.Add("typed-close-during-callback-checks", 1)
			if running > 0 {
				r.V("C16", "callback-running-at-done", "typed monitor: Done() closed while %d callback(s) were still running", running)
			}
		}
		core.Barrier()
		mu.Lock()
		cs := append([]hcall(nil), calls...)
		ad := afterDone
		mu.Unlock()
		if ad > 0 {
			r.V("C16", "callback-after-done", "typed monitor: %d callback(s) began after Done() was closed", ad)
		}
		if running < 0 {
			// not closed: the registered kinds must all have been called, in order
			var sent []evrec
			for _, e := range srv.LogCopy()[base:] {
				m := e.Obj.(*corev1.Pod)
				typ := kcacheUpdate
				switch e.Type {
				case "ADDED":
					typ = kcacheCreate
				case "DELETED":
					typ = kcacheDelete
				}
				if "no-"+string(typ) == partial {
					continue
				}
				sent = append(sent, evrec{Type: typ, Key: kit.Key(m), RV: m.ResourceVersion})
			}
			judgeCallbacks(r, "typed monitor with handler "+partial, cs, sent, 0, core.Overruns() == 0)
			r.Add("partial-handler-checks", 1)
		}
		if !within(func() { ctl.Close() }) {
			r.V("C12", "close-hang", "typed controller Close() hung")
			return
		}
		core.Barrier()
		r.Key(id)
		r.Sample = map[string]interface{}{"handler": partial, "callbacks": len(cs), "running_when_done_closed": running}
	}}
}

// e16SiblingCase: long-lived monitors on a publisher whose OTHER subscribers
// (plain subscriptions, monitors, filtered subscriptions) come and go while
// events are being published, each closed by its owner right before an event
// goes out.  Every long-lived monitor still gets exactly one callback per
// published event, in order.
func e16SiblingCase(seed uint64, n int) Case {
	id := fmt.Sprintf("E16/sibling-churn/%d/%d", seed, n)
	return Case{ID: id, Desc: map[string]interface{}{"seed": seed, "n": n, "what": "siblings of long-lived monitors are closed while events are in flight"}, Bubble: true, Run: func(r *Res) {
		rng := kit.NewRng(kit.Mix(seed, uint64(n)+1690))
		plan := &kit.Plan{Seed: rng.U64(), PYield: 120, PSleep: 30, MaxSleep: 60 * time.Microsecond}
		if n%2 == 1 {
			// hold a closing subscription between "done" and its removal from the publisher
			// (coverage only; a library that logs differently is simply not held there)
			plan.Targets = map[string]time.Duration{"subscription done": 200 * time.Microsecond}
		}
		core := kit.NewCore(plan)
		g := newRootRig(core, nil)
		defer g.stop(r, "C12")
		u := smallUniverse()
		g.root.MakeReady()
		pub := g.root.Publisher()
		var hs []*recHandler
		var mons []kcache.Monitor
		for i := 0; i < 4; i++ {
			h := newRecHandler()
			m, err := kcache.NewMonitor(pub, h)
			if err != nil {
				r.V("C16", "monitor-create-error", "%v", err)
				return
			}
			hs = append(hs, h)
			mons = append(mons, m)
		}
		g.barrier()
		type closer interface{ Close() }
		var sibs []closer
		total := 60 + rng.Intn(60)
		for i := 0; i < total; i++ {
			switch rng.Intn(3) {
			case 0:
				if s, err := pub.Subscribe(); err == nil {
					go func() {
						for range s.Events() {
						}
					}()
					sibs = append(sibs, s)
				}
			case 1:
				if m, err := kcache.NewMonitor(pub, newRecHandler()); err == nil {
					sibs = append(sibs, m)
				}
			case 2:
				if s, err := pub.SubscribeWithFilter(filterFamily()[2].Build()); err == nil {
					go func() {
						for range s.Events() {
						}
					}()
					sibs = append(sibs, s)
				}
			}
			if len(sibs) > 0 && rng.Chance(60) {
				k := rng.Intn(len(sibs))
				victim := sibs[k]
				sibs = append(sibs[:k], sibs[k+1:]...)
				go victim.Close()
				r.Add("siblings-closed-mid-stream", 1)
				if rng.Bool() {
					time.Sleep(time.Duration(rng.Intn(150)) * time.Microsecond)
				}
			}
			if _, err := g.mutate(rng, u); err != nil {
				r.V("C16", "publish-error", "%v", err)
				return
			}
			if i%20 == 19 {
				g.barrier() // keeps every backlog far below the buffer
			}
		}
		g.barrier()
		sent := g.sent
		for i, h := range hs {
			judgeCallbacks(r, fmt.Sprintf("long-lived monitor %d (siblings closed while %d events were published)", i, len(sent)), h.snapshot(), sent, 0, true)
			r.Add("exact-stream-checks", 1)
		}
		for _, s := range sibs {
			s.Close()
		}
		for _, m := range mons {
			m.Close()
		}
		r.Key(id)
		r.Sample = map[string]interface{}{"published": len(sent), "long_lived_monitors": len(hs)}
	}}
}

// e16InitCloseCase: the monitor is closed (or its publisher stops) while a slow
// OnInitialize is running and a burst of events is in flight or buffered
// behind it; repeated with varying burst sizes and instants.  Done() must not
// close before the running callback has returned, no callback may begin after
// it, and the callbacks that did run are a prefix-compatible, ordered part of
// the stream.
func e16InitCloseCase(seed uint64, n int) Case {
	id := fmt.Sprintf("E16/close-during-initialize/%d/%d", seed, n)
	rounds := 30
	return Case{ID: id, Desc: map[string]interface{}{"seed": seed, "n": n, "rounds": rounds, "what": "Close()/publisher stop while OnInitialize is running with events in flight"}, Bubble: true, Run: func(r *Res) {
		rng := kit.NewRng(kit.Mix(seed, uint64(n)+1660))
		u := smallUniverse()
		for round := 0; round < rounds && !r.Failed(); round++ {
			core := kit.NewCore(&kit.Plan{Seed: rng.U64(), PYield: 150, PSleep: 40, MaxSleep: 50 * time.Microsecond})
			g := newRootRig(core, nil)
			for i := 0; i < 3; i++ {
				g.root.Cache().Update(newEv(kcacheUpdate, kit.Pod(u.nss[i%2], u.names[i], strconv.Itoa(g.nextRV), u.labels[i+1])))
				g.nextRV++
			}
			g.root.MakeReady()
			h := newRecHandler()
			h.core = core
			h.delay = time.Duration(300+rng.Intn(900)) * time.Microsecond
			mon, err := kcache.NewMonitor(g.root.Publisher(), h)
			if err != nil {
				r.V("C16", "monitor-create-error", "%v", err)
				return
			}
			h.mu.Lock()
			h.doneCh = mon.Done()
			h.mu.Unlock()
			time.Sleep(time.Duration(rng.Intn(int(h.delay/time.Microsecond))) * time.Microsecond) // somewhere inside OnInitialize
			for k := 0; k < 1+rng.Intn(12); k++ {
				g.mutate(rng, u)
			}
			via := "Close()"
			if round%3 == 2 {
				via = "publisher stop"
				g.root.Stop()
			} else {
				mon.Close()
			}
			if !waitCh(mon.Done(), virtBound) {
				r.V("C16", "monitor-not-done", "monitor closed (%s) during OnInitialize: Done() never closes", via)
				return
			}
			time.Sleep(2 * h.delay)
			core.Barrier()
			h.mu.Lock()
			maxInfl, afterDn, runningAtDn := h.maxInfl, h.afterDn, h.runningAtDn
			h.mu.Unlock()
			label := fmt.Sprintf("monitor with a slow OnInitialize (%v), %s while it ran with a burst in flight (round %d)", h.delay, via, round)
			r.Add("close-during-initialize-rounds", 1)
			if maxInfl > 1 {
				r.V("C16", "callbacks-overlap", "%s: %d callbacks were running at once", label, maxInfl)
			}
			if afterDn > 0 {
				r.V("C16", "callback-after-done", "%s: %d callback(s) began after Done() was closed", label, afterDn)
			} else if runningAtDn > 0 {
				r.V("C16", "callback-after-done", "%s: Done() closed while a callback was still running", label)
			}
			judgeCallbacks(r, label, h.snapshot(), g.sent, 0, false)
			g.stop(r, "C12")
		}
		r.Key(id)
		r.Sample = map[string]interface{}{"rounds": rounds}
	}}
}

// e16BuilderCase: the core's handler builder used again after Create(): a handler
// created earlier keeps the callbacks it was created with, also while it is
// installed in a running monitor.
func e16BuilderCase(seed uint64) Case {
	id := fmt.Sprintf("E16/handler-builder-reuse/%d", seed)
	return Case{ID: id, Desc: map[string]interface{}{"what": "kcache.BuildHandler() reused after Create(), handlers installed in monitors"}, Bubble: true, Run: func(r *Res) {
		rng := kit.NewRng(kit.Mix(seed, 1666))
		core := kit.NewCore(&kit.Plan{Seed: rng.U64(), PYield: 100})
		g := newRootRig(core, nil)
		defer g.stop(r, "C12")
		g.root.MakeReady()
		var mu sync.Mutex
		var calls []string
		note := func(s string) func(metav1.Object) {
			return func(o metav1.Object) {
				mu.Lock()
				calls = append(calls, s+":"+kit.Key(o)+"@"+o.GetResourceVersion())
				mu.Unlock()
			}
		}
		hb := kcache.BuildHandler().OnCreate(note("A.create")).OnUpdate(note("A.update")).OnDelete(note("A.delete"))
		hA := hb.Create()
		mA, err := kcache.NewMonitor(g.root.Publisher(), hA)
		if err != nil {
			r.V("C16", "monitor-create-error", "%v", err)
			return
		}
		hb = hb.OnCreate(note("B.create")).OnUpdate(note("B.update")).OnDelete(note("B.delete"))
		hB := hb.Create()
		mB, err := kcache.NewMonitor(g.root.Publisher(), hB)
		if err != nil {
			r.V("C16", "monitor-create-error", "%v", err)
			return
		}
		g.barrier()
		u := smallUniverse()
		for i := 0; i < 12; i++ {
			g.mutate(rng, u)
		}
		g.barrier()
		mu.Lock()
		got := append([]string(nil), calls...)
		mu.Unlock()
		nA, nB := 0, 0
		for _, c := range got {
			if strings.HasPrefix(c, "A.") {
				nA++
			}
			if strings.HasPrefix(c, "B.") {
				nB++
			}
		}
		sent := g.sent
		r.Add("exact-stream-checks", 2)
		if nA != len(sent) || nB != len(sent) {
			r.V("C16", "callbacks-missing", "two monitors with handlers created from ONE builder (the builder was given new callbacks after the first Create()): %d events were published; the first handler's own callbacks ran %d times, the second's %d times (each must run once per event): %v", len(sent), nA, nB, got)
		}
		mA.Close()
		mB.Close()
		r.Key(id)
	}}
}

// e16FailedFirstListCase: monitors attached to a real controller whose FIRST list
// fails (every failure kind): the publisher shuts down without ever becoming
// ready, so no callback at all may run.
func e16FailedFirstListCase(seed uint64, kind kit.ListFaultKind, n int) Case {
	id := fmt.Sprintf("E16/failed-first-list/%s/%d/%d", kind, seed, n)
	return Case{ID: id, Desc: map[string]interface{}{"failure": kind.String(), "n": n}, Bubble: true, Run: func(r *Res) {
		rng := kit.NewRng(kit.Mix(seed, uint64(n)+1677+uint64(kind)))
		core := kit.NewCore(&kit.Plan{Seed: rng.U64(), PYield: 150, PSleep: 40, MaxSleep: 80 * time.Microsecond})
		srv := kit.NewPodServer(core)
		u := smallUniverse()
		for i := 0; i < 4; i++ {
			u.mutate(rng, srv)
		}
		lat := []time.Duration{0, time.Millisecond, 200 * time.Millisecond}[rng.Intn(3)]
		srv.ListPlan = func(i int) kit.ListFault { return kit.ListFault{Kind: kind, Latency: lat} }
		g, err := newCtlRig(core, srv, time.Minute, nil)
		if err != nil {
			r.Inc(err.Error())
			return
		}
		var hs []*recHandler
		pubs := []kcache.Publisher{g.ctl}
		if cl, err := g.ctl.Clone(); err == nil {
			pubs = append(pubs, cl)
		}
		if cl, err := g.ctl.CloneWithFilter(filterFamily()[2].Build()); err == nil {
			pubs = append(pubs, cl)
		}
		var mons []kcache.Monitor
		for _, p := range pubs {
			h := newRecHandler()
			m, err := kcache.NewMonitor(p, h)
			if err != nil {
				continue // the controller is already going down: refusing is fine
			}
			hs = append(hs, h)
			mons = append(mons, m)
		}
		if !waitCh(g.ctl.Done(), virtBound) {
			r.V("C14", "not-fail-stop", "first list fails (%s) but the controller is not done", kind)
			g.cancel()
			return
		}
		for _, m := range mons {
			waitCh(m.Done(), virtBound)
		}
		core.Barrier()
		for i, h := range hs {
			r.Add("no-callback-checks", 1)
			if c := h.snapshot(); len(c) > 0 {
				r.V("C16", "callback-without-ready", "the controller's first list failed (%s): its publishers never became ready, yet monitor #%d got %d callback(s), the first being %s with %d object(s)", kind, i, len(c), c[0].Kind, len(c[0].Objs))
			}
		}
		g.cancel()
		core.Barrier()
		r.Key(id)
	}}
}

func init() {
	register("E16", func(tier string, seed uint64) []Case {
		var cases []Case
		reps := tierPick(tier, 3, 2000)
		for rep := 0; rep < reps; rep++ {
			for _, hk := range []string{"instant", "fast", "slow", "blocked"} {
				for _, cl := range []string{"none", "before-ready", "mid-stream", "during-callback", "publisher-before-ready", "cache-stopped-before-ready", "during-initialize"} {
					if cl == "during-initialize" && hk != "slow" {
						continue
					}
					for _, cr := range []string{"before-ready", "after-ready", "after-ready-prebuffered"} {
						if cr != "before-ready" && (cl == "before-ready" || cl == "publisher-before-ready" || cl == "cache-stopped-before-ready") {
							continue
						}
						if hk == "blocked" && cl != "none" {
							continue
						}
						cases = append(cases, e16RootCase(seed, rep, hk, cl, cr, false))
					}
				}
				cases = append(cases, e16RootCase(seed, rep, hk, "none", "before-ready", true))
			}
			for i := 0; i < 4; i++ {
				cases = append(cases, e16TypedCase(seed, rep*4+i, false, i%2 == 1))
				cases = append(cases, e16TypedCase(seed, rep*4+i, true, false))
			}
			for i := 0; i < 6; i++ {
				cases = append(cases, e16SiblingCase(seed, rep*6+i))
			}
			for i := 0; i < 5; i++ {
				cases = append(cases, e16InitCloseCase(seed, rep*5+i))
			}
			cases = append(cases, e16BuilderCase(seed+uint64(rep)))
			for _, k := range []kit.ListFaultKind{kit.ListErr, kit.ListNonList, kit.ListNonObjects, kit.ListNoAccessor, kit.ListNilNil, kit.ListStatus, kit.ListErrAndList} {
				cases = append(cases, e16FailedFirstListCase(seed, k, rep))
			}
			for i, pk := range []string{"all", "no-create", "no-update", "no-delete"} {
				cases = append(cases, e16TypedCloseCase(seed, rep*4+i, pk), e16TypedCloseCase(seed, rep*4+i+1, pk))
			}
		}
		return cases
	})
}
