package engines

// E13: termination is clean: no hang, no leak, no zombie, no panic (C12).
// Shutdown-point enumeration over a seeded workload.

import (
	"errors"
	"fmt"
	"sync"
	"sync/atomic"
	"time"

	"github.com/boz/kcache"

	"verifharness/kit"
)

type e13desc struct {
	Seed    uint64 `json:"seed"`
	Scen    int    `json:"scenario"`
	Trigger string `json:"trigger"` // close | closeN | cancel | list-error
	At      string `json:"fire_at"` // step:<s> | point:<n>
	State   string `json:"hard_state"`
	UserCtx string `json:"user_ctx,omitempty"` // "opaque": a hand-written context.Context the standard library cannot see through
}

var e13Triggers = []string{"close", "close3", "cancel", "list-error", "close5"}
var e13States = []string{"plain", "slow-lists", "watch-block", "watch-flap", "not-ready", "watch-frames", "slow-connect"}

const e13Steps = 14

// e13Run runs the scenario; fireStep>=0 fires the trigger after that step,
// firePoint>0 fires it from inside that logger point.  It returns the number
// of logger points seen (for the dry run).
func e13Run(r *Res, d e13desc, fireStep, firePoint int) int {
	n, _ := e13RunCtx(r, d, fireStep, firePoint, 0)
	return n
}

// e13RunCtx: fireCtx>0 cancels the controller's context from inside its
// fireCtx-th Done()/Err() consultation by the library (kit.TrigCtx).  Returns
// the logger points and the context consultations seen.
func e13RunCtx(r *Res, d e13desc, fireStep, firePoint, fireCtx int) (int, int) {
	rng := kit.NewRng(kit.Mix(d.Seed, uint64(d.Scen)+1300))
	P := []time.Duration{time.Second, 10 * time.Second}[rng.Intn(2)]
	plan := &kit.Plan{Seed: rng.U64(), PYield: 80, PSleep: 15, MaxSleep: 60 * time.Microsecond}
	if d.Scen%2 == 1 {
		// hold a subscription's own clean-up a little (coverage only: if the library words
		// its log differently the hold simply does not happen)
		plan.Targets = map[string]time.Duration{"subscription done": 300 * time.Microsecond}
	}
	core := kit.NewCore(plan)
	if firePoint <= 0 && fireStep >= 0 && (fireStep+d.Scen)%4 == 3 {
		core = nil // race mode (step-triggered cases only; point triggers need the recording logger)
	}
	srv := kit.NewPodServer(core)
	u := smallUniverse()
	for i := 0; i < 3; i++ {
		u.mutate(rng, srv)
	}
	var failLists atomic.Bool
	srv.ListPlan = func(i int) kit.ListFault {
		f := kit.ListFault{}
		switch d.State {
		case "slow-lists":
			f.Latency = P + P/2
		case "not-ready":
			if i == 1 {
				f.Latency = 1000 * P
			}
		default:
			if i%3 == 0 {
				f.Latency = P / 3
			}
		}
		if failLists.Load() {
			f.Kind = kit.ListErr
		}
		return f
	}
	srv.WatchPlan = func(i int) kit.WatchFault {
		f := kit.NoWatchFault()
		switch d.State {
		case "watch-block":
			if i%2 == 0 {
				f.Block = true
			} else {
				f.CloseAfter = 1
			}
		case "watch-flap":
			switch i % 3 {
			case 0:
				f.Err = true
			case 1:
				f.CloseAfter = 2
			}
		case "slow-connect":
			// connecting takes a while; a cancellation during it is answered with the
			// established stream; every other stream ends after two events
			f.Latency = 300 * time.Millisecond
			f.LateStream = true
			f.CloseAfter = 2
		case "watch-frames":
			// frames that are not API objects, then a close on every other stream
			f.Frames = map[int][]watchEvent{
				0: {kit.UnknownFrame()},
				1: {kit.StatusFrame(), {Type: "ADDED", Object: nil}},
				2: {kit.BookmarkFrame(1), kit.ForeignFrame(9000 + i)},
			}
			if i%2 == 1 {
				f.CloseAfter = 3
			}
		}
		return f
	}
	tctx := kit.NewTrigCtx()
	if fireCtx > 0 {
		tctx.CancelAtCall(fireCtx)
	}
	var octx *kit.OpaqueCtx
	var g *ctlRig
	var err error
	if d.UserCtx == "opaque" {
		octx = kit.NewOpaqueCtx()
		g, err = newCtlRigCtx(core, srv, P, nil, octx, octx.Cancel)
	} else {
		g, err = newCtlRigCtx(core, srv, P, nil, tctx, tctx.Cancel)
	}
	if err != nil {
		r.Inc(err.Error())
		return 0, 0
	}
	fam := filterFamily()
	t := newTree(g.ctl)
	tmu := newChanLock()
	if err := t.grow(rng, 6+rng.Intn(4), 4, fam, childKinds, true); err != nil {
		if !(tctx.Fired() && errors.Is(err, kcache.ErrNotRunning)) {
			r.V("C12", "tree-build-error", "%v", err)
			return 0, 0
		}
		// the context was cancelled from inside one of the first consultations: a
		// publisher that refuses further children with ErrNotRunning is right
		r.Add("tree-build-refused-after-cancel", 1)
	}
	// ---- the trigger ----
	var fired atomic.Bool
	var closeRet atomic.Int32
	nClose := 0
	racers := 4
	type raceRes struct {
		what string
		err  error
		done <-chan struct{}
	}
	var rmu sync.Mutex
	var raced []raceRes
	var rwg sync.WaitGroup
	fire := func() {
		if !fired.CompareAndSwap(false, true) {
			return
		}
		// goroutines racing Subscribe/Clone* with the shutdown
		tmu.Lock()
		var pubs []*node
		for _, n := range t.nodes {
			if n.isController() {
				pubs = append(pubs, n)
			}
		}
		tmu.Unlock()
		for i := 0; i < racers; i++ {
			rwg.Add(1)
			p := pubs[i%len(pubs)]
			k := i
			go func() {
				defer rwg.Done()
				var res raceRes
				switch k % 4 {
				case 0:
					s, err := p.pub.Subscribe()
					res = raceRes{"Subscribe", err, nil}
					if err == nil {
						res.done = s.Done()
					}
				case 1:
					c, err := p.pub.Clone()
					res = raceRes{"Clone", err, nil}
					if err == nil {
						res.done = c.Done()
					}
				case 2:
					s, err := p.pub.SubscribeWithFilter(fam[2].Build())
					res = raceRes{"SubscribeWithFilter", err, nil}
					if err == nil {
						res.done = s.Done()
					}
				case 3:
					c, err := p.pub.CloneForFilter()
					res = raceRes{"CloneForFilter", err, nil}
					if err == nil {
						res.done = c.Done()
					}
				}
				res.what += " on " + p.String()
				rmu.Lock()
				raced = append(raced, res)
				rmu.Unlock()
			}()
		}
		// Refilter calls racing with the shutdown: each returns nil or ErrNotRunning
		tmu.Lock()
		var filtered []*node
		for _, n := range t.nodes {
			if n.refilt != nil && !isClosed(n.done) {
				filtered = append(filtered, n)
			}
		}
		tmu.Unlock()
		for i := 0; i < 3 && i < len(filtered); i++ {
			nd := filtered[(i*5+d.Scen)%len(filtered)]
			f := fam[(i*3+d.Scen)%len(fam)]
			rwg.Add(1)
			go func() {
				defer rwg.Done()
				err := nd.refilt(f)
				rmu.Lock()
				raced = append(raced, raceRes{"Refilter on " + nd.String(), err, nil})
				rmu.Unlock()
			}()
		}
		// owners closing their own leaves while the root goes down and events are in flight
		tmu.Lock()
		var leaves []*node
		for _, n := range t.nodes {
			if n != t.root && len(n.children) == 0 && !isClosed(n.done) {
				leaves = append(leaves, n)
			}
		}
		tmu.Unlock()
		for i := 0; i < 2 && i < len(leaves); i++ {
			lf := leaves[(i*7+d.Scen)%len(leaves)]
			rwg.Add(1)
			go func() {
				defer rwg.Done()
				lf.closer()
			}()
		}
		srv.Put(kit.Pod("n0", "zz", "", map[string]string{"l": "x"}))
		srv.Put(kit.Pod("n1", "zz", "", map[string]string{"l": "y"}))
		if d.Scen%2 == 1 {
			time.Sleep(time.Duration(20+d.Scen*13%200) * time.Microsecond)
		}
		switch d.Trigger {
		case "close", "close3", "close5":
			nClose = map[string]int{"close": 1, "close3": 3, "close5": 5}[d.Trigger]
			for i := 0; i < nClose; i++ {
				go func() {
					g.ctl.Close()
					closeRet.Add(1)
				}()
			}
		case "cancel":
			g.cancel()
		case "list-error":
			failLists.Store(true)
		}
	}
	if firePoint > 0 {
		core.TriggerAt(firePoint, fire)
	}
	// ---- the workload ----
	for s := 0; s < e13Steps && !fired.Load(); s++ {
		switch s % 7 {
		case 0, 3:
			for i := 0; i < 3; i++ {
				u.mutate(rng, srv)
			}
		case 1:
			time.Sleep(P / 2)
		case 2:
			tmu.Lock()
			for _, n := range t.nodes {
				if n.refilt != nil && rng.Chance(60) {
					n.refilt(fam[rng.Intn(len(fam))])
				}
			}
			tmu.Unlock()
		case 4:
			tmu.Lock()
			t.grow(rng, 1, 4, fam, childKinds, true)
			// an owner closes one of its leaves while events are flowing
			if s >= 7 {
				for _, n := range t.nodes {
					if n != t.root && len(n.children) == 0 && !isClosed(n.done) && rng.Chance(40) {
						u.mutate(rng, srv)
						go n.closer()
						u.mutate(rng, srv)
						break
					}
				}
			}
			tmu.Unlock()
		case 5:
			time.Sleep(P + P/5)
		case 6:
			u.mutate(rng, srv)
			time.Sleep(time.Duration(1+rng.Intn(1500)) * time.Millisecond)
		}
		if s == fireStep {
			fire()
		}
	}
	if fireStep < 0 && firePoint <= 0 && fireCtx <= 0 {
		// dry run: count the points, then shut down normally
		n := core.Seq()
		g.shutdown(r, "C12")
		return n, tctx.Calls()
	}
	if fireCtx > 0 {
		if tctx.Fired() {
			r.Set("trigger-points", tctx.FiredIn())
			fired.Store(true) // the cancellation happened inside the library's own ctx call
		} else {
			r.Add("trigger-point-not-reached", 1)
			tctx.Cancel()
			fired.Store(true)
		}
	}
	if !fired.Load() {
		// the chosen point was never reached in this schedule
		r.Add("trigger-point-not-reached", 1)
		fire()
	}
	where := d.At
	if tp := core.TriggerPoint(); tp != "" {
		where += " (" + tp + ")"
		r.Set("trigger-points", tp)
	}
	bound := virtBound
	if d.Trigger == "list-error" {
		// the next list must happen first
		bound += 2 * P
	}
	if !waitCh(g.ctl.Done(), bound) {
		r.V("C12", "done-hang", "trigger %s at %s in state %s: controller Done() not closed within %v of virtual time (client honours cancellation)\n%s", d.Trigger, where, d.State, bound, kit.CensusText(kit.Census(), 14))
		return 0, 0
	}
	if nClose > 0 {
		deadline := time.Now().Add(time.Minute)
		for closeRet.Load() < int32(nClose) && time.Now().Before(deadline) {
			time.Sleep(time.Millisecond)
		}
		if int(closeRet.Load()) < nClose {
			r.V("C12", "close-hang", "trigger %s at %s: Done() is closed but only %d of %d concurrent Close() calls returned\n%s", d.Trigger, where, closeRet.Load(), nClose, kit.CensusText(kit.Census(), 10))
			return 0, 0
		}
	}
	rok := make(chan struct{})
	go func() { rwg.Wait(); close(rok) }()
	if !waitCh(rok, virtBound) {
		r.V("C12", "racing-call-hang", "trigger %s at %s: a Subscribe/Clone call racing with shutdown did not return\n%s", d.Trigger, where, kit.CensusText(kit.Census(), 10))
		return 0, 0
	}
	for _, rr := range raced {
		r.Add("racing-calls", 1)
		switch {
		case rr.err != nil && !errors.Is(rr.err, kcache.ErrNotRunning):
			r.V("C12", "racing-call-bad-error", "%s racing with shutdown returned %v", rr.what, rr.err)
		case rr.err == nil && rr.done == nil:
			// (a call that returns no object, e.g. Refilter: returning is all that is asked)
		case rr.err == nil:
			r.Add("racing-calls-got-object", 1)
			if !waitCh(rr.done, virtBound) {
				r.V("C12", "zombie", "%s racing with shutdown (%s at %s) returned an object that never becomes done\n%s", rr.what, d.Trigger, where, kit.CensusText(kit.Census(), 10))
				return 0, 0
			}
		}
	}
	if octx != nil && d.Trigger != "cancel" {
		// The user's context is still live (and stays so): the root is done, so
		// everything started on the library's behalf has to be gone all the same -
		// including the watcher goroutine that package context runs for every
		// context the library derived from a parent it cannot see through.
		g.barrier()
		gs := append(kit.Census(), kit.CtxWatchers()...)
		r.Add("opaque-ctx-censuses", 1)
		if len(gs) > 0 {
			r.V("C12", "goroutine-leak", "trigger %s at %s in state %s, user context of a hand-written type that is still live: %d goroutine(s) started on the library's behalf remain after the root is done: %v\n%s", d.Trigger, where, d.State, len(gs), kit.CensusKeys(gs), kit.CensusText(gs, 6))
			g.cancel()
			return 0, 0
		}
	}
	g.cancel()
	g.barrier()
	if gs := kit.Census(); len(gs) > 0 {
		r.V("C12", "goroutine-leak", "trigger %s at %s in state %s: %d library goroutine(s) remain after the root is done: %v\n%s", d.Trigger, where, d.State, len(gs), kit.CensusKeys(gs), kit.CensusText(gs, 6))
		return 0, 0
	}
	for _, n := range t.nodes {
		if !isClosed(n.done) {
			r.V("C12", "zombie", "root is done but %s is not", n)
		}
	}
	if n := srv.UnstoppedStreams(); n > 0 {
		r.V("C12", "watch-stream-left-open", "trigger %s at %s in state %s: the root is done but %d watch stream(s) handed out by the client were never stopped (a zombie connection each)", d.Trigger, where, d.State, n)
	}
	// ---- API calls after Done ----
	type call struct {
		name string
		fn   func() (error, <-chan struct{})
	}
	var calls []call
	for _, n := range t.nodes {
		n := n
		if n.isController() {
			calls = append(calls,
				call{n.String() + ".Subscribe", func() (error, <-chan struct{}) {
					s, err := n.pub.Subscribe()
					if err != nil {
						return err, nil
					}
					return nil, s.Done()
				}},
				call{n.String() + ".SubscribeWithFilter", func() (error, <-chan struct{}) {
					s, err := n.pub.SubscribeWithFilter(fam[2].Build())
					if err != nil {
						return err, nil
					}
					return nil, s.Done()
				}},
				call{n.String() + ".SubscribeForFilter", func() (error, <-chan struct{}) {
					s, err := n.pub.SubscribeForFilter()
					if err != nil {
						return err, nil
					}
					return nil, s.Done()
				}},
				call{n.String() + ".Clone", func() (error, <-chan struct{}) {
					s, err := n.pub.Clone()
					if err != nil {
						return err, nil
					}
					return nil, s.Done()
				}},
				call{n.String() + ".CloneWithFilter", func() (error, <-chan struct{}) {
					s, err := n.pub.CloneWithFilter(fam[3].Build())
					if err != nil {
						return err, nil
					}
					return nil, s.Done()
				}},
				call{n.String() + ".CloneForFilter", func() (error, <-chan struct{}) {
					s, err := n.pub.CloneForFilter()
					if err != nil {
						return err, nil
					}
					return nil, s.Done()
				}},
				call{n.String() + ".NewMonitor", func() (error, <-chan struct{}) {
					m, err := kcache.NewMonitor(n.pub, newRecHandler())
					if err != nil {
						return err, nil
					}
					return nil, m.Done()
				}},
			)
		}
		if n.cc != nil {
			calls = append(calls,
				call{n.String() + ".Cache().List", func() (error, <-chan struct{}) { _, err := n.cc.Cache().List(); return err, nil }},
				call{n.String() + ".Cache().Get", func() (error, <-chan struct{}) { _, err := n.cc.Cache().Get("n0", "a"); return err, nil }},
			)
		}
		if n.refilt != nil {
			calls = append(calls, call{n.String() + ".Refilter", func() (error, <-chan struct{}) { return n.refilt(fam[5]), nil }})
		}
		calls = append(calls, call{n.String() + ".Close", func() (error, <-chan struct{}) { n.closer(); return nil, nil }})
	}
	for _, c := range calls {
		var err error
		var dn <-chan struct{}
		if !within(func() { err, dn = c.fn() }) {
			r.V("C12", "api-call-blocks-after-done", "%s blocks after the root is done (trigger %s at %s)\n%s", c.name, d.Trigger, where, kit.CensusText(kit.Census(), 8))
			return 0, 0
		}
		r.Add("post-done-api-calls", 1)
		if err != nil && !errors.Is(err, kcache.ErrNotRunning) {
			r.V("C12", "api-call-bad-error", "%s after Done returned %v (expected ErrNotRunning or a result)", c.name, err)
		}
		if err == nil && dn != nil {
			if !waitCh(dn, virtBound) {
				r.V("C12", "zombie", "%s after the root is done returned an object that never becomes done", c.name)
				return 0, 0
			}
		}
	}
	g.barrier()
	if gs := kit.Census(); len(gs) > 0 {
		r.V("C12", "goroutine-leak", "after the post-Done API calls %d library goroutine(s) remain: %v\n%s", len(gs), kit.CensusKeys(gs), kit.CensusText(gs, 6))
	}
	r.Add("terminations", 1)
	return core.Seq(), tctx.Calls()
}

func e13Case(seed uint64, scen int, trig, state string, fireStep, k, K int) Case {
	return e13CaseCtx(seed, scen, trig, state, fireStep, k, K, "")
}

func e13CaseCtx(seed uint64, scen int, trig, state string, fireStep, k, K int, userCtx string) Case {
	at := fmt.Sprintf("step:%d", fireStep)
	if K > 0 {
		at = fmt.Sprintf("point:%d/%d of the run's logger points", k, K)
	}
	d := e13desc{seed, scen, trig, at, state, userCtx}
	id := fmt.Sprintf("E13/%d/s%d/%s/%s/%s", seed, scen, state, trig, at)
	if userCtx != "" {
		id += "/ctx-" + userCtx
	}
	return Case{ID: id, Desc: d, Bubble: true, Run: func(r *Res) {
		point := 0
		if K > 0 {
			// dry run in the same bubble: count the logger points N of this scenario,
			// then fire from inside point 1 + k*N/K
			n := e13Run(r, e13desc{seed, scen, "close", "dry-run", state, userCtx}, -1, 0)
			if n <= 0 || r.Failed() {
				return
			}
			point = 1 + k*n/K
			r.Max("logger-points-per-run", int64(n))
		}
		e13Run(r, d, fireStep, point)
		r.Key(id)
		r.Set("states-triggers", state+"/"+trig)
		r.Sample = map[string]interface{}{"desc": d, "fired_at_point": point}
	}}
}

// e13CtxCase: the context is cancelled from inside the k-th of the K
// consultations (Done()/Err()) the library makes of it in this scenario.
func e13CtxCase(seed uint64, scen int, state string, k, K int) Case {
	at := fmt.Sprintf("ctxcall:%d/%d of the run's context consultations", k, K)
	d := e13desc{seed, scen, "cancel", at, state, ""}
	id := fmt.Sprintf("E13/%d/s%d/%s/cancel/%s", seed, scen, state, at)
	return Case{ID: id, Desc: d, Bubble: true, Run: func(r *Res) {
		_, n := e13RunCtx(r, e13desc{seed, scen, "close", "dry-run", state, ""}, -1, 0, 0)
		if n <= 0 || r.Failed() {
			return
		}
		call := 1 + k*n/K
		r.Max("ctx-consultations-per-run", int64(n))
		e13RunCtx(r, d, -1, 0, call)
		r.Key(id)
		r.Set("states-triggers", state+"/ctx-cancel")
		r.Sample = map[string]interface{}{"desc": d, "fired_at_ctx_call": call, "of": n}
	}}
}


// eRetryExpiryCase: something that stops the controller (Close, context
// cancellation, a failing relist) reaches the watcher at (almost) the instant
// the reconnect delay of an earlier disconnect expires, with the watcher held
// at its own log points so that the expiry falls into its handling of the
// shutdown.  Done() must close, nothing may be left behind, and a failing list
// must be reported.  prop is the property the case is run for (C12 / C14).
func eRetryExpiryCase(prop string, seed uint64, n int, trigger string) Case {
	id := fmt.Sprintf("E13/stop-at-reconnect-expiry/%s/%d/%d", trigger, seed, n)
	hold := []time.Duration{200 * time.Microsecond, 600 * time.Microsecond, 1500 * time.Microsecond}[n%3]
	// the watcher is held at EVERY log point, so the reconnect delay starts several holds
	// after the disconnect (one per event and one for the end of the session): sweep the
	// lead from 5 holds after the nominal expiry to one hold before it, in quarter holds
	off := time.Duration(n/3%24-20) * hold / 4
	return Case{ID: id, Desc: map[string]interface{}{"seed": seed, "n": n, "trigger": trigger, "watcher_hold": hold.String(), "lead_before_expiry": off.String()}, Bubble: true, Run: func(r *Res) {
		rng := kit.NewRng(kit.Mix(seed, uint64(n)+1390))
		core := kit.NewCore(&kit.Plan{Seed: rng.U64(), PYield: 100, Targets: map[string]time.Duration{"watcher|": hold}})
		srv := kit.NewPodServer(core)
		for _, nm := range []string{"a", "b"} {
			srv.Put(kit.Pod("n0", nm, "", map[string]string{"l": "x"}))
		}
		release := make(chan struct{})
		released := false
		if trigger == "list-error" {
			// (the held list is released by this case itself, always; for the other
			// triggers nothing is held: the client must honour cancellation)
			srv.OnList = func(i int) {
				if i == 2 {
					<-release
				}
			}
		}
		srv.ListPlan = func(i int) kit.ListFault {
			if i == 2 && trigger == "list-error" {
				return kit.ListFault{Kind: kit.ListErr}
			}
			return kit.ListFault{}
		}
		srv.WatchPlan = func(i int) kit.WatchFault {
			f := kit.NoWatchFault()
			if i == 1 {
				f.CloseAfter = 2
			}
			return f
		}
		g, err := newCtlRig(core, srv, 10*time.Second, nil)
		if err != nil {
			close(release)
			r.Inc(err.Error())
			return
		}
		defer func() {
			if !released {
				close(release)
			}
		}()
		sub, _ := g.ctl.Subscribe()
		mir := startMirror("sub", sub.Events(), sub.Ready(), nil)
		_ = mir
		if !waitCh(g.ctl.Ready(), virtBound) {
			r.V(prop, "never-ready", "controller not ready")
			return
		}
		if trigger == "list-error" {
			for i := 0; i < 3000 && len(srv.Lists()) < 2; i++ {
				time.Sleep(10 * time.Millisecond)
			}
			if len(srv.Lists()) != 2 {
				r.Inc("list #2 not observed")
				return
			}
		} else {
			time.Sleep(time.Duration(1+rng.Intn(3000)) * time.Millisecond)
		}
		srv.Put(kit.Pod("n0", "a", "", map[string]string{"l": "y"}))
		srv.Put(kit.Pod("n0", "b", "", map[string]string{"l": "y"})) // stream #1 ends: the reconnect delay starts
		time.Sleep(kcache.VerifWatchRetryDelay - off)
		switch trigger {
		case "close":
			go g.ctl.Close()
		case "cancel":
			g.cancel()
		case "list-error":
			close(release)
			released = true
		}
		if !waitCh(g.ctl.Done(), virtBound) {
			r.V(prop, "done-hang", "%s reached the controller %v before the expiry of a pending reconnect delay (watcher held %v at its log points): Done() not closed %v later (Error() = %v)\n%s", trigger, off, hold, virtBound, g.ctl.Error(), kit.CensusText(kit.Census(), 12))
			return
		}
		if trigger == "list-error" && g.ctl.Error() == nil {
			r.V(prop, "failure-not-reported", "failing relist at the expiry of a reconnect delay: Done() closed but Error() is nil")
		}
		if !released {
			close(release)
			released = true
		}
		g.cancel()
		core.Barrier()
		if gs := kit.Census(); len(gs) > 0 {
			r.V("C12", "goroutine-leak", "%s at the expiry of a reconnect delay: %d library goroutine(s) remain: %v\n%s", trigger, len(gs), kit.CensusKeys(gs), kit.CensusText(gs, 6))
		}
		if n := srv.UnstoppedStreams(); n > 0 {
			r.V("C12", "watch-stream-left-open", "%s at the expiry of a reconnect delay: %d watch stream(s) handed out by the client were never stopped", trigger, n)
		}
		r.Add("stops-at-reconnect-expiry", 1)
		r.Add("terminations", 1)
		r.Key(id)
	}}
}

func init() {
	register("E13", func(tier string, seed uint64) []Case {
		var cases []Case
		ns := tierPick(tier, 2, 60)
		K := tierPick(tier, 24, 160)
		for sc := 0; sc < ns; sc++ {
			for si, st := range e13States {
				for ti, tr := range e13Triggers {
					if tier == "quick" && (si+ti+sc)%2 == 1 {
						continue
					}
					if st == "not-ready" && tr == "list-error" {
						continue // the only list is in flight for the whole run; it cannot fail before it returns
					}
					for s := 0; s < e13Steps; s++ {
						if tier == "quick" && (s+si+ti)%2 == 1 {
							continue
						}
						cases = append(cases, e13Case(seed, sc, tr, st, s, 0, 0))
					}
					for k := 0; k < K; k++ {
						cases = append(cases, e13Case(seed, sc, tr, st, -1, k, K))
					}
				}
				// the user's context is of a hand-written type and is never cancelled
				for ti, tr := range []string{"close", "close3", "list-error"} {
					if st == "not-ready" && tr == "list-error" {
						continue
					}
					for s := 0; s < e13Steps; s++ {
						if tier == "quick" && (s+si+ti+sc)%4 != 0 {
							continue
						}
						cases = append(cases, e13CaseCtx(seed, sc, tr, st, s, 0, 0, "opaque"))
					}
					KO := tierPick(tier, 3, 24)
					for k := 0; k < KO; k++ {
						cases = append(cases, e13CaseCtx(seed, sc, tr, st, -1, k, KO, "opaque"))
					}
				}
				KC := tierPick(tier, 12, 48)
				for k := 0; k < KC; k++ {
					cases = append(cases, e13CtxCase(seed, sc, st, k, KC))
				}
			}
		}
		for i := 0; i < tierPick(tier, 96, 1920); i++ {
			cases = append(cases, eRetryExpiryCase("C12", seed, i, []string{"close", "cancel"}[i%2]))
		}
		// joins: created, closed, and failing to be created over a stopped controller;
		// nothing may be left running (E10's scenarios, leak / hang classes)
		leak := map[string]bool{"join-leaks-goroutines": true, "join-close-hang": true, "join-zombie": true}
		for _, k := range []string{"ingress-pods", "service-pod", "ingress-service", "job-pod"} {
			for i := 0; i < tierPick(tier, 2, 30); i++ {
				cases = append(cases, e10As(e10Case(k, seed, i), "C12", leak))
			}
		}
		return cases
	})
}
