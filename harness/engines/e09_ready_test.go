package engines

// E9: Ready means synced, and nothing is observable before it (C08).
// Exhaustive over operation orders x variant x depth, stepped and unstepped.

import (
	"fmt"
	"strconv"
	"sync"
	"sync/atomic"
	"time"

	"github.com/boz/kcache"
	metav1 "k8s.io/apimachinery/pkg/apis/meta/v1"

	"verifharness/kit"
)

// op alphabet: R parent becomes ready (at most once), E Refilter(equal),
// N Refilter(new), V parent event / parent cache change, S subscribe below.
func e9Sequences(maxLen int) []string {
	var out []string
	var rec func(prefix string, usedR bool)
	rec = func(prefix string, usedR bool) {
		out = append(out, prefix)
		if len(prefix) == maxLen {
			return
		}
		for _, c := range "ENVS" {
			rec(prefix+string(c), usedR)
		}
		if !usedR {
			rec(prefix+"R", true)
		}
	}
	rec("", false)
	return out
}

type readyWatch struct {
	mu    sync.Mutex
	fired bool
	at    time.Time
	snap  kit.Snap
	err   error
	stop  chan struct{}
	done  chan struct{}
}

func watchReady(cc kcache.CacheController) *readyWatch {
	w := &readyWatch{stop: make(chan struct{}), done: make(chan struct{})}
	go func() {
		defer close(w.done)
		select {
		case <-cc.Ready():
			l, err := cc.Cache().List()
			w.mu.Lock()
			w.fired, w.at, w.err = true, time.Now(), err
			if err == nil {
				w.snap = kit.SnapOf(l)
			}
			w.mu.Unlock()
		case <-w.stop:
		}
	}()
	return w
}

func (w *readyWatch) get() (bool, kit.Snap, error) {
	w.mu.Lock()
	defer w.mu.Unlock()
	return w.fired, w.snap, w.err
}

// runSeq executes one operation sequence; returns false on violation.
func e9RunSeq(r *Res, seq, variant string, depth int, stepped bool, palette int, seed uint64) bool {
	var core *kit.Core
	if stepped {
		core = kit.NewCore(&kit.Plan{Seed: seed, PYield: 50})
	} else {
		core = kit.NewCore(&kit.Plan{Seed: kit.Mix(seed, kit.HashStr(seq)), PYield: 200, PSleep: 80, MaxSleep: 60 * time.Microsecond})
	}
	g := newRootRig(core, nil)
	defer g.stop(r, "C12")
	u := smallUniverse()
	rng := kit.NewRng(kit.Mix(seed, kit.HashStr(seq+variant)))
	fam := filterFamily()
	fA, fB := fam[2], fam[5] // l=x ; m=1 or n1/a or */c
	switch palette {
	case 1:
		// the "new" filters alternate between accept-all and l=x: an accept-all
		// filter is what a for-filter node must NOT take for "unchanged"
		fA, fB = fam[2], fam[0]
	case 2:
		// a childless And (accepts everything) must not be taken for the initial
		// accept-nothing filter of a for-filter node
		fA, fB = kit.TAnd(), fam[2]
	case 3:
		// a childless Or (accepts nothing) against an accept-all node
		fA, fB = fam[0], kit.TOr()
	}
	mid := fam[8] // l notin (x): intermediate clones
	if depth == 3 {
		mid = fam[0]
	}
	// some initial parent content
	for i := 0; i < 3; i++ {
		g.root.Cache().Update(newEv(kcacheUpdate, kit.Pod(u.nss[i%2], u.names[i], strconv.Itoa(g.nextRV), u.labels[1+i%3])))
		g.nextRV++
	}
	t := newTree(g.root.Publisher())
	p := t.root
	for d := 1; d < depth; d++ {
		k := "clonewf"
		f := mid
		if d == 2 {
			f = fam[0]
		}
		n, err := t.addChild(p, k, f, true)
		if err != nil {
			r.V("C08", "tree-build-error", "%v", err)
			return false
		}
		p = n
	}
	nd, err := t.addChild(p, variant, fA, true)
	if err != nil {
		r.V("C08", "tree-build-error", "%v", err)
		return false
	}
	watchers := map[*node]*readyWatch{}
	var allWatchers []*readyWatch
	for _, n := range t.nodes[1:] {
		watchers[n] = watchReady(n.cc)
		allWatchers = append(allWatchers, watchers[n])
	}
	defer func() {
		for _, w := range allWatchers {
			close(w.stop)
			<-w.done
		}
	}()
	rootReady := false
	supplied := false
	cur := fA
	if nd.deferred {
		cur = kit.TAll()
	}
	firstNew := fB
	if palette == 2 {
		firstNew = fA
	}
	// window of parent contents / filters since the last barrier (unstepped)
	rootStates := [][]metav1Object{}
	var winEvents []evrec // events published at the root since the last barrier
	filters := []*kit.Term{cur}
	noteRoot := func() {
		l, _ := g.root.Cache().List()
		rootStates = append(rootStates, l)
	}
	noteRoot()
	label := func(i int) string {
		return fmt.Sprintf("variant=%s depth=%d stepped=%v seq=%q step %d", variant, depth, stepped, seq, i)
	}
	modelReady := func(n *node) bool {
		if !rootReady {
			return false
		}
		if n.deferred {
			return supplied
		}
		return true
	}
	expectContent := func(n *node, rootList []metav1Object) kit.Snap {
		s := kit.Snap{}
		for _, o := range rootList {
			if t.effective(n, o) {
				s[kit.Key(o)] = o.GetResourceVersion()
			}
		}
		return s
	}
	judge := func(i int) bool {
		g.barrier()
		rootList, _ := g.root.Cache().List()
		ok := true
		for _, n := range t.nodes[1:] {
			want := modelReady(t.cacheOwner(n))
			if n.kind != "sub" {
				want = modelReady(n)
			}
			got := isClosed(n.cc.Ready())
			r.Add("ready-state-checks", 1)
			if got != want {
				r.V("C08", "ready-state-wrong", "%s: Ready() of %s is closed=%v, reference automaton says %v (parent ready=%v, filter supplied=%v)", label(i), n, got, want, rootReady, supplied)
				ok = false
				continue
			}
			if got {
				exp := expectContent(n, rootList)
				c, _ := cacheSnap(n.cc.Cache())
				if !c.Equal(exp) {
					r.V("C08", "content-after-ready-wrong", "%s: %s is ready but holds %v, expected %v", label(i), n, c, exp)
					ok = false
				}
				if w := watchers[n]; w != nil {
					fired, snap, err := w.get()
					if !fired {
						r.V("C08", "ready-watcher-missed", "%s: Ready() of %s is closed but a goroutine waiting on it did not wake", label(i), n)
						ok = false
					} else if err == nil && snap != nil {
						r.Add("content-at-readiness-checks", 1)
						// the read made the moment Ready() was observed must already be
						// the synced content (for one of the parent states / filters of
						// the current window)
						match := false
						saved := nd.filter
						for _, rs := range rootStates {
							for _, f := range filters {
								nd.filter = f
								if expectContent(n, rs).Equal(snap) {
									match = true
								}
							}
						}
						nd.filter = saved
						staleExplained := false
						if !match {
							// Is the read one of the admissible contents with in-flight events
							// OLDER than the sync applied on top of it?  (a delete of k older
							// than the synced k: k missing; a create/update of k older than
							// the synced state: an old version of k present)
							for _, rs := range rootStates {
								for _, f := range filters {
									nd.filter = f
									if staleInflightExplains(expectContent(n, rs), snap, winEvents) {
										staleExplained = true
									}
								}
							}
							nd.filter = saved
						}
						if staleExplained {
							r.V("C08", "stale-inflight-event-after-sync", "%s: the cache read made when Ready() of %s fired returned %v: the synced content with an in-flight parent event OLDER than the sync applied on top of it (events in window: %s)", label(i), n, snap, tailEvents(winEvents, 8))
							r.Add("stale-inflight-observations", 1)
							watchers[n] = nil
							continue
						}
						if !match {
							r.V("C08", "read-at-readiness-not-synced", "%s: the cache read made when Ready() of %s fired returned %v; expected the filtered parent content (parent states in window: %d, last %v)", label(i), n, snap, len(rootStates), kit.SnapOf(rootStates[len(rootStates)-1]))
							ok = false
						}
						watchers[n] = nil
					}
				}
			}
			if n.mir != nil && n.mir.preReady() > 0 {
				r.V("C08", "event-before-ready", "%s: %s received %d event(s) before its Ready() closed", label(i), n, n.mir.preReady())
				ok = false
			}
		}
		rootStates = rootStates[:0]
		winEvents = winEvents[:0]
		noteRoot()
		filters = []*kit.Term{cur}
		return ok
	}
	if stepped && !judge(-1) {
		return false
	}
	for i, c := range seq {
		switch c {
		case 'R':
			g.root.MakeReady()
			rootReady = true
		case 'E':
			if err := nd.refilt(cur); err != nil {
				r.V("C08", "refilter-error", "%s: %v", label(i), err)
				return false
			}
			supplied = true
		case 'N':
			nf := firstNew
			if cur == fB {
				nf = fA
			} else if cur == fA {
				nf = fB
			}
			if err := nd.refilt(nf); err != nil {
				r.V("C08", "refilter-error", "%s: %v", label(i), err)
				return false
			}
			cur = nf
			nd.filter = nf
			supplied = true
			filters = append(filters, nf)
		case 'V':
			if rootReady {
				evts, err := g.mutate(rng, u)
				if err != nil {
					r.V("C08", "publish-error", "%s: %v", label(i), err)
					return false
				}
				for _, e := range evts {
					winEvents = append(winEvents, evrec{Type: e.Type(), Key: kit.Key(e.Resource()), RV: e.Resource().GetResourceVersion()})
				}
			} else {
				g.root.Cache().Update(newEv(kcacheUpdate, kit.Pod(u.nss[rng.Intn(2)], u.names[rng.Intn(3)], strconv.Itoa(g.nextRV), u.labels[rng.Intn(len(u.labels))])))
				g.nextRV++
			}
			noteRoot()
		case 'S':
			if nd.isController() {
				if s, err := t.addChild(nd, "sub", nil, true); err == nil {
					watchers[s] = nil
				} else {
					r.V("C08", "subscribe-error", "%s: %v", label(i), err)
					return false
				}
			} else {
				// plain subscriptions cannot be subscribed to: add a sibling of the
				// node under the same parent instead
				if _, err := t.addChild(nd.parent, "sub", nil, true); err != nil {
					r.V("C08", "subscribe-error", "%s: %v", label(i), err)
					return false
				}
			}
		}
		if stepped && !judge(i) {
			return false
		}
	}
	if !stepped && !judge(len(seq)) {
		return false
	}
	return true
}

func e9Case(variant string, depth int, stepped bool, palette int, seqs []string, chunk int, seed uint64) Case {
	id := fmt.Sprintf("E9/%s/d%d/stepped=%v/p%d/chunk%d", variant, depth, stepped, palette, chunk)
	return Case{ID: id, Desc: map[string]interface{}{"variant": variant, "depth": depth, "stepped": stepped, "filter_palette": palette, "sequences": len(seqs), "first": seqs[0], "last": seqs[len(seqs)-1]},
		Bubble: true, Run: func(r *Res) {
			n := int64(0)
			for _, s := range seqs {
				if !e9RunSeq(r, s, variant, depth, stepped, palette, seed) {
					break
				}
				n++
			}
			r.Evals = n
			r.Count = n
			r.Add("sequences", n)
			r.Sample = map[string]interface{}{"variant": variant, "depth": depth, "stepped": stepped, "sequences": []string{seqs[0], seqs[len(seqs)/2], seqs[len(seqs)-1]}}
		}}
}

// staleInflightExplains: does snap equal want except for keys whose difference
// is the effect of a window event that is older than want's entry for that key?
func staleInflightExplains(want, snap kit.Snap, win []evrec) bool {
	differs := false
	keys := map[string]bool{}
	for k := range want {
		keys[k] = true
	}
	for k := range snap {
		keys[k] = true
	}
	for k := range keys {
		wv, wh := want[k]
		sv, sh := snap[k]
		if wh == sh && wv == sv {
			continue
		}
		differs = true
		ok := false
		for _, e := range win {
			if e.Key != k {
				continue
			}
			switch {
			case !sh && wh && e.Type == kcacheDelete && kit.Atoi(e.RV) < kit.Atoi(wv):
				ok = true // stale delete removed the synced (newer) object
			case sh && e.Type != kcacheDelete && e.RV == sv && (!wh || kit.Atoi(sv) < kit.Atoi(wv)):
				ok = true // stale create/update resurrected / regressed the key
			}
		}
		if !ok {
			return false
		}
	}
	return differs
}

// e9StaleCase: directed schedule for the known finding D7: a filtered node that
// is parked inside Refilter while its parent deletes and re-creates an object
// syncs the newer content and then applies the buffered, OLDER delete.
func e9StaleCase(seed uint64, n int, variant string) Case {
	id := fmt.Sprintf("E9/stale-inflight/%s/%d/%d", variant, seed, n)
	return Case{ID: id, Desc: map[string]interface{}{"what": "directed: node parked in Refilter while the parent deletes and re-creates an object", "variant": variant, "attempts": 25}, Bubble: true, Run: func(r *Res) {
		for attempt := 0; attempt < 25; attempt++ {
			core := kit.NewCore(&kit.Plan{Seed: kit.Mix(seed, uint64(n*100+attempt)), PYield: 100, Targets: map[string]time.Duration{"refiltering...": 300 * time.Microsecond}})
			g := newRootRig(core, nil)
			for i, nm := range []string{"a", "b", "c"} {
				g.root.Cache().Update(newEv(kcacheUpdate, kit.Pod("n0", nm, strconv.Itoa(i+1), map[string]string{"l": "x"})))
			}
			g.nextRV = 4
			g.root.MakeReady()
			t := newTree(g.root.Publisher())
			mid, err := t.addChild(t.root, "clonewf", kit.TNull(), true)
			if err != nil {
				r.Inc(err.Error())
				return
			}
			nd, err := t.addChild(mid, variant, kit.TAll(), true)
			if err != nil {
				r.Inc(err.Error())
				return
			}
			g.barrier()
			w := watchReady(nd.cc)
			nd.refilt(kit.TNull()) // the node is now parked at "refiltering..."
			nd.filter = kit.TNull()
			var win []evrec
			// the parent states of the window: a read at readiness may legitimately show any
			// of them (where the node syncs relative to the parent's changes is a matter of
			// schedule: on the unchanged tree the node is parked at its "refiltering..." log
			// point while the parent moves on, a differently structured library may sync at
			// once).  The update of n0/b makes the D7 state {b@6, c@3} differ from all of them.
			states := []kit.Snap{{"n0/a": "1", "n0/b": "2", "n0/c": "3"}}
			cur := states[0].Clone()
			for _, step := range []struct {
				typ  kcache.EventType
				name string
				rv   string
			}{{kcacheDelete, "a", "4"}, {kcacheUpdate, "a", "5"}, {kcacheUpdate, "b", "6"}} {
				evts, _ := g.apply(step.typ, kit.Pod("n0", step.name, step.rv, map[string]string{"l": "x"}))
				for _, e := range evts {
					win = append(win, evrec{Type: e.Type(), Key: kit.Key(e.Resource()), RV: e.Resource().GetResourceVersion()})
				}
				if step.typ == kcacheDelete {
					delete(cur, "n0/"+step.name)
				} else {
					cur["n0/"+step.name] = step.rv
				}
				states = append(states, cur.Clone())
			}
			g.barrier()
			fired, snap, _ := w.get()
			close(w.stop)
			<-w.done
			want := states[len(states)-1]
			r.Add("directed-stale-inflight-attempts", 1)
			match, explained := false, false
			for _, st := range states {
				if snap.Equal(st) {
					match = true
				}
			}
			if !match {
				for _, st := range states {
					if staleInflightExplains(st, snap, win) {
						explained = true
					}
				}
			}
			switch {
			case !fired:
				r.V("C08", "ready-state-wrong", "directed case: node with ready parent and supplied filter not ready")
			case match:
			case explained:
				r.V("C08", "stale-inflight-event-after-sync", "directed case (%s below a clone, attempt %d): parked inside Refilter while the parent deleted n0/a@4, re-created it @5 and updated n0/b@6; the read made when Ready() fired returned %v, which is none of the parent's states %v: a buffered OLDER event was applied after the sync", variant, attempt, snap, states)
				r.Add("stale-inflight-observations", 1)
			default:
				r.V("C08", "read-at-readiness-not-synced", "directed case: read at readiness returned %v, none of the parent's states %v in the window", snap, states)
			}
			final, _ := cacheSnap(nd.cc.Cache())
			if !final.Equal(want) {
				r.V("C06", "filtered-cache-mismatch", "directed case: at quiescence the node holds %v, parent %v", final, want)
			}
			g.stop(r, "C12")
		}
		r.Key(id)
		r.Sample = map[string]interface{}{"variant": variant, "attempts": 25}
	}}
}

// e9FailedFirstCase: a failed first list never makes anything ready.
func e9FailedFirstCase(seed uint64, kind kit.ListFaultKind, n int) Case {
	id := fmt.Sprintf("E9/failed-first-list/%s/%d/%d", kind, seed, n)
	return Case{ID: id, Desc: map[string]interface{}{"failure": kind.String(), "n": n}, Bubble: true, Run: func(r *Res) {
		rng := kit.NewRng(kit.Mix(seed, uint64(n)+uint64(kind)*31+919))
		core := kit.NewCore(&kit.Plan{Seed: rng.U64(), PYield: 150, PSleep: 40, MaxSleep: 80 * time.Microsecond})
		srv := kit.NewPodServer(core)
		u := smallUniverse()
		for i := 0; i < 4; i++ {
			u.mutate(rng, srv)
		}
		lat := []time.Duration{0, time.Millisecond, time.Second}[rng.Intn(3)]
		srv.ListPlan = func(i int) kit.ListFault { return kit.ListFault{Kind: kind, Latency: lat} }
		g, err := newCtlRig(core, srv, time.Second, nil)
		if err != nil {
			r.Inc(err.Error())
			return
		}
		fam := filterFamily()
		t := newTree(g.ctl)
		// the tree may be cut short when the controller has already stopped
		t.grow(rng, 6, 3, fam, childKinds, true)
		for _, nd := range t.nodes {
			if nd.refilt != nil {
				nd.refilt(fam[2])
			}
		}
		if !waitCh(g.ctl.Done(), lat+time.Minute) {
			r.V("C14", "not-fail-stop", "first list failed (%s) but the controller keeps running", kind)
			r.V("C08", "ready-after-failed-first-list", "first list failed (%s): controller still running %v later, ready=%v", kind, lat+time.Minute, isClosed(g.ctl.Ready()))
			g.shutdown(r, "C12")
			return
		}
		g.barrier()
		for _, nd := range t.nodes {
			if nd.cc != nil && isClosed(nd.cc.Ready()) {
				r.V("C08", "ready-after-failed-first-list", "the first list failed (%s) but %s became ready", kind, nd)
			}
			if nd.mir != nil && nd.mir.count() > 0 {
				r.V("C08", "event-before-ready", "the first list failed (%s) but %s received %d events", kind, nd, nd.mir.count())
			}
			if nd.handler != nil && len(nd.handler.snapshot()) > 0 {
				r.V("C16", "callback-without-ready", "the first list failed but monitor %s got callbacks", nd)
			}
		}
		r.Add("failed-first-list-cases", 1)
		g.cancel()
		r.Key(id)
		r.Sample = map[string]interface{}{"failure": kind.String(), "nodes": len(t.nodes), "error": fmt.Sprint(g.ctl.Error())}
	}}
}

// e9CtlCase: Ready() of a controller closes only after the first list has been
// fully applied; a failed first list never makes anything ready (that half is
// E15's, reported under C08 as well).
func e9CtlCase(seed uint64, n int) Case {
	id := fmt.Sprintf("E9/controller/%d/%d", seed, n)
	return Case{ID: id, Desc: map[string]interface{}{"seed": seed, "n": n, "what": "controller readiness vs first list"}, Bubble: true, Run: func(r *Res) {
		rng := kit.NewRng(kit.Mix(seed, uint64(n)+909))
		core := kit.NewCore(&kit.Plan{Seed: rng.U64(), PYield: 150, PSleep: 60, MaxSleep: 80 * time.Microsecond,
			Targets: map[string]time.Duration{[]string{"controller|list version", "controller|list complete", "controller|ready", "cache|"}[rng.Intn(4)]: 100 * time.Microsecond}})
		srv := kit.NewPodServer(core)
		u := smallUniverse()
		for i := 0; i < 4; i++ {
			u.mutate(rng, srv)
		}
		lat := []time.Duration{0, time.Millisecond, 300 * time.Millisecond, 5 * time.Second}[rng.Intn(4)]
		late := rng.Bool()
		emptyRV := rng.Chance(25)
		if emptyRV {
			late = true // without versions the list must be the latest state for the watch to continue from it
		}
		srv.ListPlan = func(i int) kit.ListFault {
			return kit.ListFault{Latency: lat, SnapshotLate: late, EmptyRV: emptyRV}
		}
		fam := filterFamily()
		F := fam[[]int{0, 2, 3, 5, 7}[rng.Intn(5)]]
		g, err := newCtlRig(core, srv, time.Minute, F)
		if err != nil {
			r.Inc(err.Error())
			return
		}
		sub, _ := g.ctl.Subscribe()
		fsub, _ := g.ctl.SubscribeWithFilter(fam[2].Build())
		mir := startMirror("sub", sub.Events(), sub.Ready(), nil)
		fmir := startMirror("subwf", fsub.Events(), fsub.Ready(), nil)
		w := watchReady(g.ctl)
		fw := watchReady(fsub)
		defer func() {
			close(w.stop)
			<-w.done
			close(fw.stop)
			<-fw.done
		}()
		// the server keeps changing while the first list is in flight
		stop := make(chan struct{})
		mdone := make(chan struct{})
		go func() {
			defer close(mdone)
			if emptyRV {
				return // (a list without version cannot be continued gap-free by a watch)
			}
			for i := 0; i < 8; i++ {
				select {
				case <-stop:
					return
				case <-time.After(lat/6 + 50*time.Microsecond):
					u.mutate(rng, srv)
				}
			}
		}()
		if lat > 0 {
			time.Sleep(lat / 2)
			core.Barrier()
			if isClosed(g.ctl.Ready()) {
				r.V("C08", "ready-before-first-list", "controller Ready() closed while the first list (latency %v) was still in flight", lat)
			}
			if isClosed(fsub.Ready()) || isClosed(sub.Ready()) {
				r.V("C08", "ready-before-first-list", "a subscription is ready while the controller's first list is in flight")
			}
			r.Add("not-ready-while-listing-checks", 1)
		}
		if !waitCh(g.ctl.Ready(), virtBound) {
			r.V("C08", "never-ready", "controller not ready although the first list succeeds")
			g.shutdown(r, "C12")
			return
		}
		<-mdone
		close(stop)
		core.Barrier()
		lists := srv.Lists()
		fired, snap, rerr := w.get()
		if !fired {
			r.V("C08", "ready-watcher-missed", "Ready() closed but the waiting goroutine did not wake")
		} else if rerr == nil && len(lists) > 0 && lists[0].Returned {
			want := kit.Snap{}
			for _, o := range srv.LogObjectsAt(lists[0].Snap) {
				if F.Eval(o) {
					want[kit.Key(o)] = o.GetResourceVersion()
				}
			}
			// the read made when Ready() fired holds the list's accepted objects,
			// possibly already advanced by watch events delivered after it (never less)
			ok := true
			for k, v := range want {
				gv, has := snap[k]
				if has && kit.Atoi(gv) < kit.Atoi(v) {
					ok = false
				}
				if !has {
					// may only be missing if a LATER server event deleted it or relabelled
					// it out of the filter (the watch may already have delivered that)
					later := false
					for _, e := range srv.LogCopy() {
						m, _ := e.Obj.(metav1Object)
						if e.RV > lists[0].RV && kit.Key(m) == k && (e.Type == "DELETED" || !F.Eval(m)) {
							later = true
						}
					}
					ok = ok && later
				}
			}
			r.Add("content-at-readiness-checks", 1)
			if !ok {
				r.V("C08", "read-at-readiness-not-synced", "the cache read made when the controller's Ready() fired returned %v; the first list's accepted objects were %v (filter %s)", snap, want, F)
			}
		}
		if f2, fsnap, _ := fw.get(); f2 && fsnap != nil {
			for k := range fsnap {
				o := currentOrLogged(srv, k, fsnap[k])
				if o != nil && (!F.Eval(o) || !fam[2].Eval(o)) {
					r.V("C08", "read-at-readiness-not-synced", "filtered subscription read %s@%s at readiness although its filters reject it", k, fsnap[k])
				}
			}
		}
		for _, m := range []*mirror{mir, fmir} {
			if m.preReady() > 0 {
				r.V("C08", "event-before-ready", "%s received %d event(s) before its Ready() closed", m.name, m.preReady())
			}
		}
		// at quiescence everything is synced
		got, _ := cacheSnap(g.ctl.Cache())
		if want := F.Accepted(srv.Objects()); !got.Equal(want) {
			r.V("C08", "content-after-ready-wrong", "controller is ready and quiescent but holds %v, accepted server content is %v", got, want)
		}
		r.Add("controller-readiness-cases", 1)
		g.shutdown(r, "C12")
		r.Key(id)
		r.Sample = map[string]interface{}{"first_list_latency": lat.String(), "filter": F.String(), "read_at_readiness": fmt.Sprint(snap)}
	}}
}

// e9StopRun: a controller (static server content, first list takes 1 s of
// virtual time) with subscribers of every kind created while that list is in
// flight; the controller is stopped (context cancellation or Close) from INSIDE
// one of the library's own steps around "first list applied": logger point
// firePoint or the fireCtx-th consultation of the context.  Stopping is
// legitimate at any instant, and then a node may never become ready or may
// answer reads with ErrNotRunning; what must never happen is a node that
// reports Ready() and answers a read (nil error) with something else than its
// synced content, or a controller that is ready although its filter never saw
// the listed objects.  Returns (logger points, ctx consultations).
func e9StopRun(r *Res, seed uint64, n int, mech string, firePoint, fireCtx int) (int, int) {
	rng := kit.NewRng(kit.Mix(seed, uint64(n)+990))
	core := kit.NewCore(&kit.Plan{Seed: rng.U64(), PYield: 120, PSleep: 30, MaxSleep: 80 * time.Microsecond})
	srv := kit.NewPodServer(core)
	u := smallUniverse()
	for i := 0; i < 6; i++ {
		u.mutate(rng, srv)
	}
	srv.ListPlan = func(i int) kit.ListFault {
		if i == 1 {
			return kit.ListFault{Latency: time.Second}
		}
		return kit.ListFault{}
	}
	fam := filterFamily()
	inner := fam[[]int{0, 0, 2, 5}[rng.Intn(4)]]
	var seenMu sync.Mutex
	seen := map[string]bool{}
	F := kit.TFN("recording("+inner.String()+")", func(o metav1.Object) bool {
		seenMu.Lock()
		seen[kit.Key(o)+"@"+o.GetResourceVersion()] = true
		seenMu.Unlock()
		return inner.Eval(o)
	})
	tctx := kit.NewTrigCtx()
	g, err := newCtlRigCtx(core, srv, time.Minute, F, tctx, tctx.Cancel)
	if err != nil {
		r.Inc(err.Error())
		return 0, 0
	}
	g.F = inner
	t := newTree(g.ctl)
	t.root.filter = inner
	for _, k := range []string{"sub", "subwf", "subff", "clonewf", "cloneff", "clone", "monitor"} {
		nd, err := t.addChild(t.root, k, fam[2], true)
		if err != nil {
			r.V("C08", "tree-build-error", "%v", err)
			return 0, 0
		}
		if nd.isController() {
			for _, k2 := range []string{"subwf", "sub", "monitor"} {
				if _, err := t.addChild(nd, k2, fam[5], true); err != nil {
					r.V("C08", "tree-build-error", "%v", err)
					return 0, 0
				}
			}
		}
	}
	for _, nd := range t.nodes {
		if nd.deferred {
			nd.refilt(fam[3])
			nd.filter, nd.supplied = fam[3], true
		}
	}
	watchers := map[*node]*readyWatch{}
	for _, nd := range t.nodes {
		if nd.cc != nil {
			watchers[nd] = watchReady(nd.cc)
		}
	}
	defer func() {
		for _, w := range watchers {
			close(w.stop)
			<-w.done
		}
	}()
	var fired atomic.Bool
	fire := func() {
		if !fired.CompareAndSwap(false, true) {
			return
		}
		if mech == "close" {
			go g.ctl.Close()
		} else {
			tctx.Cancel()
		}
	}
	base, cbase := core.Seq(), tctx.Calls()
	if firePoint > 0 {
		core.TriggerAt(base+firePoint, fire)
	}
	if fireCtx > 0 {
		tctx.CancelAtCall(cbase + fireCtx)
	}
	// run until ready (or stopped), then a little longer
	select {
	case <-g.ctl.Ready():
	case <-g.ctl.Done():
	case <-time.After(3 * time.Second):
	}
	time.Sleep(2 * time.Millisecond)
	core.Barrier()
	if firePoint <= 0 && fireCtx <= 0 {
		np, nc := core.Seq()-base, tctx.Calls()-cbase
		g.shutdown(r, "C12")
		return np, nc
	}
	where := "at the end of the scenario"
	switch {
	case tctx.Fired():
		where = fmt.Sprintf("inside the library's consultation #%d of its context (%s)", fireCtx, tctx.FiredIn())
	case fired.Load():
		where = fmt.Sprintf("from inside logger point #%d (%s)", firePoint, core.TriggerPoint())
	default:
		r.Add("trigger-point-not-reached", 1)
		fire()
	}
	waitCh(g.ctl.Done(), virtBound)
	core.Barrier()
	lists := srv.Lists()
	objs := srv.Objects() // static
	// the controller: ready => its filter saw every listed object
	if isClosed(g.ctl.Ready()) && len(lists) > 0 {
		seenMu.Lock()
		missing := []string{}
		for _, o := range objs {
			if !seen[kit.Key(o)+"@"+o.GetResourceVersion()] {
				missing = append(missing, kit.Key(o))
			}
		}
		seenMu.Unlock()
		r.Add("ready-implies-list-examined-checks", 1)
		if len(missing) > 0 {
			r.V("C08", "ready-without-first-list-applied", "controller stopped via %s %s: its Ready() is closed although the listed objects %v were never handed to its filter: the first list was not applied (Error() = %v)", mech, where, missing, g.ctl.Error())
		}
	}
	for nd, w := range watchers {
		fired, snap, rerr := w.get()
		if !fired {
			r.Add("nodes-never-ready", 1)
			continue
		}
		if rerr != nil {
			r.Add("reads-at-readiness-refused", 1)
			continue
		}
		r.Add("content-at-readiness-checks", 1)
		want := kit.Snap{}
		for _, o := range objs {
			if t.effective(nd, o) {
				want[kit.Key(o)] = o.GetResourceVersion()
			}
		}
		if !snap.Equal(want) {
			r.V("C08", "read-at-readiness-not-synced", "controller stopped via %s %s: %s reported Ready() and the read made at that moment returned %v without error; its synced content would be %v (server static, %d objects listed)", mech, where, nd, snap, want, len(objs))
		}
	}
	for _, nd := range t.nodes {
		if nd.mir != nil && nd.mir.preReady() > 0 {
			r.V("C08", "event-before-ready", "%s received %d event(s) before its Ready() closed", nd, nd.mir.preReady())
		}
	}
	r.Add("stopped-around-first-list-cases", 1)
	tctx.Cancel()
	core.Barrier()
	return 0, 0
}

func e9StopCase(seed uint64, n int, mech string, k, K int, ctxTrig bool) Case {
	kind := "point"
	if ctxTrig {
		kind = "ctxcall"
	}
	id := fmt.Sprintf("E9/stopped-at-%s/%d/%d/%s/%d-of-%d", kind, seed, n, mech, k, K)
	return Case{ID: id, Desc: map[string]interface{}{"seed": seed, "n": n, "mechanism": mech, "trigger": kind, "k": k, "K": K}, Bubble: true, Run: func(r *Res) {
		np, nc := e9StopRun(r, seed, n, mech, 0, 0)
		if r.Failed() {
			return
		}
		if ctxTrig {
			if nc > 0 {
				e9StopRun(r, seed, n, "cancel", 0, 1+k*nc/K)
			}
		} else if np > 0 {
			e9StopRun(r, seed, n, mech, 1+k*np/K, 0)
		}
		r.Key(id)
	}}
}

func splitKey(k string) (string, string) {
	for i := 0; i < len(k); i++ {
		if k[i] == '/' {
			return k[:i], k[i+1:]
		}
	}
	return "", k
}

func currentObj(srv *kit.Server, key string) metav1Object {
	for _, o := range srv.Objects() {
		if kit.Key(o) == key {
			return o
		}
	}
	return nil
}

func currentOrLogged(srv *kit.Server, key, rv string) metav1Object {
	l := srv.LogObjectsAt(kit.Snap{key: rv})
	if len(l) == 1 && kit.Key(l[0]) == key {
		return l[0]
	}
	return nil
}

func init() {
	register("E9", func(tier string, seed uint64) []Case {
		var cases []Case
		for i := 0; i < tierPick(tier, 120, 10000); i++ {
			cases = append(cases, e9CtlCase(seed, i))
		}
		for i := 0; i < tierPick(tier, 4, 40); i++ {
			cases = append(cases, e9StaleCase(seed, i, []string{"subff", "cloneff"}[i%2]))
		}
		for i := 0; i < tierPick(tier, 3, 40); i++ {
			K := tierPick(tier, 24, 48)
			for k := 0; k < K; k++ {
				cases = append(cases, e9StopCase(seed, i, []string{"cancel", "close"}[(k+i)%2], k, K, false))
			}
			KC := tierPick(tier, 8, 16)
			for k := 0; k < KC; k++ {
				cases = append(cases, e9StopCase(seed, i, "cancel", k, KC, true))
			}
		}
		for _, k := range []kit.ListFaultKind{kit.ListErr, kit.ListNonList, kit.ListNonObjects, kit.ListNoAccessor, kit.ListNilNil, kit.ListStatus, kit.ListErrAndList} {
			for i := 0; i < tierPick(tier, 3, 40); i++ {
				cases = append(cases, e9FailedFirstCase(seed, k, i))
			}
		}
		maxLen := tierPick(tier, 5, 6)
		seqs := e9Sequences(maxLen)
		const chunk = 150
		for _, v := range []string{"subwf", "subff", "clonewf", "cloneff"} {
			for depth := 1; depth <= 3; depth++ {
				for _, stepped := range []bool{true, false} {
					ss := seqs
					if !stepped && tier == "quick" {
						// unstepped: quick takes the sequences of length 5 with an R only
						ss = nil
						for _, s := range seqs {
							if len(s) >= 4 {
								ss = append(ss, s)
							}
						}
					}
					for palette := 0; palette < 4; palette++ {
						if palette >= 1 && tier == "quick" && !stepped {
							continue
						}
						if palette >= 2 && tier == "quick" && depth > 1 {
							continue
						}
						for i := 0; i < len(ss); i += chunk {
							j := i + chunk
							if j > len(ss) {
								j = len(ss)
							}
							cases = append(cases, e9Case(v, depth, stepped, palette, ss[i:j], i/chunk, seed))
						}
					}
				}
			}
		}
		return cases
	})
}
