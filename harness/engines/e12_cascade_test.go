package engines

// E12: shutdown cascades down the tree, never up or sideways (C11).

import (
	"context"
	"fmt"
	"strconv"
	"sync/atomic"
	"time"

	"github.com/boz/kcache"
	metav1 "k8s.io/apimachinery/pkg/apis/meta/v1"

	"verifharness/kit"
)

var e12Moments = []string{"before-ready", "idle", "in-flight", "refiltering", "list-in-flight", "list-blocked"}

type e12desc struct {
	Seed   uint64 `json:"seed"`
	Tree   int    `json:"tree"`
	Victim int    `json:"victim_node"`
	Moment string `json:"moment"`
	Mech   string `json:"mechanism"`
}

// e12BuildTree grows a deterministic random tree; same (seed, tree) => same shape.
func e12BuildTree(rng *kit.Rng, t *tree, fam []*kit.Term) error {
	return t.grow(rng, 7+rng.Intn(5), 4, fam, childKinds, true)
}

// e12TreeSize reports the node count for (seed, tree) without running anything
// (the shape only depends on the PRNG).
func e12TreeSize(seed uint64, tr int) int {
	rng := kit.NewRng(kit.Mix(seed, uint64(tr)+1200))
	return 1 + 7 + rng.Intn(5)
}

func e12Case(seed uint64, tr, victim int, moment, mech string, race bool) Case {
	d := e12desc{seed, tr, victim, moment, mech}
	id := fmt.Sprintf("E12/%d/t%d/v%d/%s/%s/r%v", seed, tr, victim, moment, mech, race)
	return Case{ID: id, Desc: d, Bubble: true, Run: func(r *Res) {
		rng := kit.NewRng(kit.Mix(seed, uint64(tr)+1200))
		nn := 7 + rng.Intn(5) // must stay the first draw (see e12TreeSize)
		P := 10 * time.Second
		plan := &kit.Plan{Seed: rng.U64(), PYield: 100, PSleep: 20, MaxSleep: 80 * time.Microsecond}
		if moment == "refiltering" {
			plan.Targets = map[string]time.Duration{"refiltering...": 400 * time.Microsecond}
		}
		core := kit.NewCore(plan)
		if race {
			core = nil // collaborators without shared state: only the race log of these runs counts
		}
		srv := kit.NewPodServer(core)
		u := smallUniverse()
		for i := 0; i < 4; i++ {
			u.mutate(rng, srv)
		}
		var failAt atomic.Int64
		failAt.Store(-1)
		srv.ListPlan = func(i int) kit.ListFault {
			f := kit.ListFault{}
			if moment == "before-ready" && i == 1 {
				f.Latency = 5 * time.Second
			}
			if moment == "list-in-flight" && i >= 2 {
				f.Latency = P / 2
			}
			if moment == "list-blocked" && i >= 2 {
				f.Latency = 100000 * P // returns only when its context is cancelled
			}
			if fa := int(failAt.Load()); fa > 0 && i >= fa {
				f.Kind = kit.ListErr
				// the fatal list error comes in several classes, among them ones that look
				// like a shutdown artefact although nobody is shutting down
				switch (tr + victim) % 3 {
				case 1:
					f.Err = fmt.Errorf("Get \"https://apiserver/api/v1/pods\": %w", context.Canceled)
				case 2:
					f.Err = context.DeadlineExceeded
				}
			}
			return f
		}
		g, err := newCtlRig(core, srv, P, nil)
		if err != nil {
			r.Inc(err.Error())
			return
		}
		fam := filterFamily()
		t := newTree(g.ctl)
		// node #1 is always a monitor directly under the controller (closing a
		// monitor before its publisher is ready is a moment of its own)
		if _, err := t.addChild(t.root, "monitor", nil, true); err != nil {
			r.V("C11", "tree-build-error", "%v", err)
			g.shutdown(r, "C12")
			return
		}
		if err := t.grow(rng, nn-1, 4, fam, childKinds, true); err != nil {
			r.V("C11", "tree-build-error", "%v", err)
			g.shutdown(r, "C12")
			return
		}
		for _, n := range t.nodes {
			if n.deferred && rng.Chance(70) {
				f := fam[[]int{0, 2, 3, 5}[rng.Intn(4)]]
				n.refilt(f)
				n.filter, n.supplied = f, true
			}
		}
		if victim >= len(t.nodes) {
			r.Inc("victim index beyond tree")
			g.shutdown(r, "C12")
			return
		}
		v := t.nodes[victim]
		// ---- reach the moment ----
		if moment != "before-ready" {
			if !waitCh(g.ctl.Ready(), virtBound) {
				r.V("C11", "never-ready", "controller not ready")
				g.shutdown(r, "C12")
				return
			}
			g.barrier()
			checkFilteredP(r, t, "C11", "before closing", true) // seeds the mirrors
		}
		switch moment {
		case "in-flight":
			for i := 0; i < 12; i++ {
				u.mutate(rng, srv)
			}
		case "refiltering":
			for _, n := range t.nodes {
				if n.refilt != nil {
					f := fam[rng.Intn(len(fam))]
					if n.refilt(f) == nil {
						n.filter, n.supplied = f, true
					}
				}
			}
			u.mutate(rng, srv)
		case "list-in-flight", "list-blocked":
			for i := 0; i < 400 && srv.Inflight() == 0; i++ {
				time.Sleep(P / 40)
			}
			if srv.Inflight() == 0 {
				r.Inc("no list in flight reached")
			}
			u.mutate(rng, srv)
		}
		// ---- close the victim ----
		switch mech {
		case "close":
			if !within(v.closer) {
				// Close() of a controller/monitor may legitimately block until done;
				// not returning at all is a hang
				r.V("C11", "close-hang", "Close() of %s did not return within %v\n%s", v, virtBound, kit.CensusText(kit.Census(), 12))
				return
			}
		case "cancel":
			g.cancel()
		case "list-error":
			fa := len(srv.Lists()) + 1
			if srv.Inflight() > 0 {
				fa++
			}
			failAt.Store(int64(fa))
		}
		sub := v.subtree()
		in := map[*node]bool{}
		for _, n := range sub {
			in[n] = true
		}
		bound := 3*P + 10*time.Second
		for _, n := range sub {
			if !waitCh(n.done, bound) {
				r.V("C11", "descendant-not-closed", "%s closed via %s at moment %s: %s (in its subtree) is not done %v later\n%s", v, mech, moment, n, bound, kit.CensusText(kit.Census(), 12))
				g.shutdown(r, "C12")
				return
			}
		}
		g.barrier()
		for _, n := range sub {
			r.Add("subtree-nodes-checked", 1)
			if n.mir != nil && !n.mir.isClosed() {
				r.V("C11", "events-not-closed", "%s closed via %s: Events() of %s has not been closed after its buffered events", v, mech, n)
			}
		}
		alive := 0
		for _, n := range t.nodes {
			if in[n] {
				continue
			}
			r.Add("outside-nodes-checked", 1)
			if isClosed(n.done) {
				r.V("C11", "shutdown-spread", "%s closed via %s at moment %s: %s is outside its subtree but is done (ancestor or sibling was taken down)", v, mech, moment, n)
			} else {
				alive++
			}
		}
		// ---- survivors stay functional ----
		if !in[t.root] && !r.Failed() {
			if !isClosed(g.ctl.Ready()) {
				waitCh(g.ctl.Ready(), virtBound)
			}
			g.barrier()
			// drop closed nodes from the tree view
			var keep []*node
			for _, n := range t.nodes {
				if !in[n] {
					keep = append(keep, n)
				}
			}
			t2 := &tree{root: t.root, nodes: keep}
			checkFilteredP(r, t2, "C11", "after closing (seed)", true)
			before := map[*node]int{}
			for _, n := range keep {
				if n.mir != nil {
					before[n] = n.mir.count()
				}
				if n.handler != nil {
					before[n] = len(n.handler.snapshot())
				}
			}
			for round := 0; round < 2; round++ {
				for i := 0; i < 10; i++ {
					u.mutate(rng, srv)
				}
				g.barrier()
				if !checkFilteredP(r, t2, "C11", fmt.Sprintf("survivors after %s closed via %s (%s), round %d", v, mech, moment, round), core.Overruns() == 0) {
					break
				}
			}
			want := kit.SnapOf(srv.Objects())
			got, _ := cacheSnap(g.ctl.Cache())
			if !got.Equal(want) {
				r.V("C11", "survivor-not-functional", "after closing %s the controller cache %v no longer follows the server %v", v, got, want)
			}
			for _, n := range keep {
				if n.kind == "sub" && t.cacheOwner(n).kind == "root" && n.mir.count() == before[n] {
					r.V("C11", "survivor-not-functional", "after closing %s (%s, %s) the unfiltered subscriber %s received none of the 20 further events", v, mech, moment, n)
				}
			}
			for _, n := range keep {
				if n.kind == "monitor" && t.cacheOwner(n.parent).kind == "root" && len(n.handler.snapshot()) == before[n] {
					r.V("C11", "survivor-not-functional", "after closing %s (%s, %s) the monitor %s got no callback for the 20 further events", v, mech, moment, n)
				}
			}
			r.Add("survivor-rounds", 1)
		}
		r.Set("victim-kinds", v.kind+"/"+moment+"/"+mech)
		r.Set("signatures", strconv.FormatUint(core.Signature(), 16))
		g.shutdown(r, "C12")
		r.Key(id)
		r.Sample = map[string]interface{}{"desc": d, "victim": v.String(), "subtree": len(sub), "alive_outside": alive, "nodes": len(t.nodes)}
	}}
}

// e12NeverReadyCase: nodes below a for-filter clone that never gets a filter
// (and therefore never becomes ready) must still be closable one by one, and
// closing them must leave the rest alone.
func e12NeverReadyCase(seed uint64, n int) Case {
	id := fmt.Sprintf("E12/never-ready-parent/%d/%d", seed, n)
	return Case{ID: id, Desc: map[string]interface{}{"seed": seed, "n": n, "what": "close monitors / subscriptions below a clone that never becomes ready"}, Bubble: true, Run: func(r *Res) {
		rng := kit.NewRng(kit.Mix(seed, uint64(n)+1212))
		core := kit.NewCore(&kit.Plan{Seed: rng.U64(), PYield: 100, PSleep: 20, MaxSleep: 80 * time.Microsecond})
		srv := kit.NewPodServer(core)
		u := smallUniverse()
		for i := 0; i < 3; i++ {
			u.mutate(rng, srv)
		}
		g, err := newCtlRig(core, srv, 10*time.Second, nil)
		if err != nil {
			r.Inc(err.Error())
			return
		}
		t := newTree(g.ctl)
		ff, err := t.addChild(t.root, "cloneff", nil, true)
		if err != nil {
			r.V("C11", "tree-build-error", "%v", err)
			return
		}
		var kids []*node
		for _, k := range []string{"monitor", "sub", "subwf", "monitor", "clone"} {
			c, err := t.addChild(ff, k, filterFamily()[2], true)
			if err != nil {
				r.V("C11", "tree-build-error", "%v", err)
				return
			}
			kids = append(kids, c)
		}
		waitCh(g.ctl.Ready(), virtBound)
		g.barrier()
		order := []int{0, 1, 2, 3, 4}
		for i := range order {
			j := i + rng.Intn(len(order)-i)
			order[i], order[j] = order[j], order[i]
		}
		for _, idx := range order[:3] {
			v := kids[idx]
			if !within(v.closer) || !waitCh(v.done, virtBound) {
				r.V("C11", "descendant-not-closed", "%s below a for-filter clone that never becomes ready: Close() did not complete / Done() did not close within %v of virtual time\n%s", v, virtBound, kit.CensusText(kit.Census(), 8))
				return
			}
			g.barrier()
			r.Add("subtree-nodes-checked", 1)
			for _, o := range kids {
				closedAlready := false
				for _, c := range order[:3] {
					if kids[c] == o && isClosed(o.done) {
						closedAlready = true
					}
				}
				if o != v && !closedAlready && isClosed(o.done) {
					r.V("C11", "shutdown-spread", "closing %s also closed its sibling %s", v, o)
				}
				r.Add("outside-nodes-checked", 1)
			}
			if isClosed(ff.done) || isClosed(g.ctl.Done()) {
				r.V("C11", "shutdown-spread", "closing %s took down its parent", v)
			}
		}
		r.Add("never-ready-parent-cases", 1)
		g.shutdown(r, "C12")
		r.Key(id)
		r.Sample = map[string]interface{}{"closed": order[:3]}
	}}
}

// e12PointRun: a controller whose first list takes one virtual second, a tree
// (monitors, filtered and deferred nodes with filters supplied) built while
// that list is in flight, then: first list applied, ready, events, one relist.
// The root is taken down from INSIDE one of the library's own steps: logger
// point firePoint (cancel or Close started there while the logging goroutine
// is held for a moment), or the library's fireCtx-th consultation of its
// context.  Whatever the instant, every descendant must become done and every
// Events() channel must be closed.  Returns (logger points, ctx consultations).
func e12PointRun(r *Res, seed uint64, tr int, mech string, firePoint, fireCtx int) (int, int) {
	rng := kit.NewRng(kit.Mix(seed, uint64(tr)+1250))
	nn := 6 + rng.Intn(5)
	P := 10 * time.Second
	core := kit.NewCore(&kit.Plan{Seed: rng.U64(), PYield: 100, PSleep: 20, MaxSleep: 80 * time.Microsecond})
	srv := kit.NewPodServer(core)
	u := smallUniverse()
	for i := 0; i < 4; i++ {
		u.mutate(rng, srv)
	}
	srv.ListPlan = func(i int) kit.ListFault {
		if i == 1 {
			return kit.ListFault{Latency: time.Second}
		}
		return kit.ListFault{}
	}
	tctx := kit.NewTrigCtx()
	g, err := newCtlRigCtx(core, srv, P, nil, tctx, tctx.Cancel)
	if err != nil {
		r.Inc(err.Error())
		return 0, 0
	}
	fam := filterFamily()
	t := newTree(g.ctl)
	if _, err := t.addChild(t.root, "monitor", nil, true); err != nil {
		r.V("C11", "tree-build-error", "%v", err)
		return 0, 0
	}
	if err := t.grow(rng, nn-1, 3, fam, childKinds, true); err != nil {
		r.V("C11", "tree-build-error", "%v", err)
		return 0, 0
	}
	for _, n := range t.nodes {
		if n.deferred {
			f := fam[[]int{0, 2, 3, 5}[rng.Intn(4)]]
			n.refilt(f)
			n.filter, n.supplied = f, true
		}
	}
	// the tree is complete and the first list is still in flight: arm the trigger now
	var fired atomic.Bool
	fire := func() {
		if !fired.CompareAndSwap(false, true) {
			return
		}
		if mech == "close" {
			go g.ctl.Close()
		} else {
			tctx.Cancel()
		}
	}
	base := core.Seq()
	cbase := tctx.Calls()
	if firePoint > 0 {
		core.TriggerAt(base+firePoint, fire)
	}
	if fireCtx > 0 {
		tctx.CancelAtCall(cbase + fireCtx)
	}
	stopped := func() bool { return fired.Load() || tctx.Fired() }
	phase := func(f func()) {
		if !stopped() {
			f()
		}
	}
	phase(func() { waitCh(g.ctl.Ready(), 3*time.Second) })
	phase(func() { time.Sleep(time.Millisecond) })
	if tr%2 == 0 {
		// long scenario; odd trees stop here, so that their K trigger positions
		// fall densely around "first list applied / ready"
		for i := 0; i < 6; i++ {
			phase(func() { u.mutate(rng, srv) })
		}
		phase(func() { time.Sleep(P + 2*time.Second) }) // one relist
		for i := 0; i < 3; i++ {
			phase(func() { u.mutate(rng, srv) })
		}
	} else {
		phase(func() { u.mutate(rng, srv) })
	}
	phase(func() { time.Sleep(time.Millisecond) })
	if firePoint <= 0 && fireCtx <= 0 {
		n, c := core.Seq()-base, tctx.Calls()-cbase
		g.shutdown(r, "C12")
		return n, c
	}
	where := ""
	switch {
	case tctx.Fired():
		where = fmt.Sprintf("inside the library's consultation #%d of its context (%s)", fireCtx, tctx.FiredIn())
		r.Set("trigger-points", tctx.FiredIn())
	case fired.Load():
		where = fmt.Sprintf("from inside logger point #%d (%s)", firePoint, core.TriggerPoint())
		r.Set("trigger-points", core.TriggerPoint())
	default:
		r.Add("trigger-point-not-reached", 1)
		where = "at the end of the scenario"
		fire()
	}
	bound := virtBound
	for _, n := range t.nodes {
		if !waitCh(n.done, bound) {
			r.V("C11", "descendant-not-closed", "root taken down via %s %s: %s is not done %v later (tree of %d nodes, controller done: %v)\n%s", mech, where, n, bound, len(t.nodes), isClosed(g.ctl.Done()), kit.CensusText(kit.Census(), 12))
			tctx.Cancel()
			return 0, 0
		}
	}
	g.barrier()
	for _, n := range t.nodes {
		r.Add("subtree-nodes-checked", 1)
		if n.mir != nil && !n.mir.isClosed() {
			r.V("C11", "events-not-closed", "root taken down via %s %s: Events() of %s has not been closed", mech, where, n)
		}
	}
	r.Add("point-triggered-shutdowns", 1)
	tctx.Cancel()
	g.barrier()
	if gs := kit.Census(); len(gs) > 0 {
		r.V("C12", "goroutine-leak", "root taken down via %s %s: %d library goroutine(s) remain: %v\n%s", mech, where, len(gs), kit.CensusKeys(gs), kit.CensusText(gs, 6))
	}
	return 0, 0
}

func e12PointCase(seed uint64, tr int, mech string, k, K int, ctxTrig bool) Case {
	kind := "point"
	if ctxTrig {
		kind = "ctxcall"
	}
	id := fmt.Sprintf("E12/at-%s/%d/t%d/%s/%d-of-%d", kind, seed, tr, mech, k, K)
	return Case{ID: id, Desc: map[string]interface{}{"seed": seed, "tree": tr, "mechanism": mech, "trigger": kind, "k": k, "K": K}, Bubble: true, Run: func(r *Res) {
		n, c := e12PointRun(r, seed, tr, mech, 0, 0)
		if r.Failed() {
			return
		}
		if ctxTrig {
			if c <= 0 {
				// a library that does not look at its context again once it is running offers
				// no such instant: nothing to judge (counted, not inconclusive)
				r.Add("no-ctx-consultation-in-window", 1)
				r.Key(id)
				return
			}
			e12PointRun(r, seed, tr, "cancel", 0, 1+k*c/K)
		} else {
			if n <= 0 {
				r.Add("no-logger-point-in-window", 1) // a library that logs nothing here: nothing to trigger from
				r.Key(id)
				return
			}
			e12PointRun(r, seed, tr, mech, 1+k*n/K, 0)
		}
		r.Set("victim-kinds", "root/at-"+kind+"/"+mech)
		r.Key(id)
	}}
}

// e12OverrunCase: the cascade when a buffer has overrun.  Variant "catch-up": a
// consumer below a clone lags until its buffer overruns and drains everything
// while the overrun is being handled; then the root stops.  Variant "refilter":
// a raw filtered subscription with an idle reader is refiltered from
// reject-all to accept-all over 150 objects (more events than its buffer
// holds); then it is closed, or the root stops.  In every case each node's
// Done() closes and its Events() channel is closed behind what was buffered.
func e12OverrunCase(seed uint64, n int, variant string) Case {
	id := fmt.Sprintf("E12/overrun-then-close/%s/%d/%d", variant, seed, n)
	return Case{ID: id, Desc: map[string]interface{}{"seed": seed, "n": n, "variant": variant}, Bubble: true, Run: func(r *Res) {
		rng := kit.NewRng(kit.Mix(seed, uint64(n)+1280))
		hold := []time.Duration{100 * time.Microsecond, 300 * time.Microsecond, 800 * time.Microsecond}[n%3]
		core := kit.NewCore(&kit.Plan{Seed: rng.U64(), PYield: 100, PSleep: 10, MaxSleep: 40 * time.Microsecond,
			Targets: map[string]time.Duration{"overrun": hold, "buffer full": hold}})
		g := newRootRig(core, nil)
		u := smallUniverse()
		closeSelf := n%2 == 1
		var watch []<-chan struct{}
		var evch []<-chan kcache.Event
		var names []string
		add := func(name string, done <-chan struct{}, ev <-chan kcache.Event) {
			names = append(names, name)
			watch = append(watch, done)
			evch = append(evch, ev)
		}
		var victim func()
		switch variant {
		case "catch-up":
			g.root.MakeReady()
			cl, err := g.root.Publisher().Clone()
			if err != nil {
				r.V("C11", "tree-build-error", "%v", err)
				return
			}
			add("clone", cl.Done(), nil)
			h, _ := cl.Subscribe()
			go func() {
				for range h.Events() {
				}
			}()
			add("healthy subscriber of the clone", h.Done(), nil)
			lag, _ := cl.Subscribe()
			add("lagging subscriber of the clone", lag.Done(), nil)
			stop := make(chan struct{})
			lagDelay := time.Duration(20+rng.Intn(int(hold/time.Microsecond))) * time.Microsecond
			go func() {
				ch := lag.Events()
				for {
					select {
					case <-stop:
						return
					case <-time.After(10 * time.Microsecond):
					}
					if len(ch) < cap(ch) {
						continue
					}
					time.Sleep(lagDelay)
					for len(ch) > 0 {
						<-ch
					}
				}
			}()
			for i := 0; i < 2*kcache.EventBufsiz+30; i++ {
				done := make(chan struct{})
				go func() { g.mutate(rng, u); close(done) }()
				if !waitCh(done, 50*time.Millisecond) {
					break // the fan-out is wedged: the cascade below is what this case judges
				}
				if i%20 == 19 {
					g.barrier()
				}
			}
			close(stop) // (the poller must not run through the long virtual waits below)
			victim = func() { lag.Close() }
		case "refilter":
			var objs []metav1.Object
			for i := 0; i < 150; i++ {
				objs = append(objs, kit.Pod("n0", fmt.Sprintf("o%03d", i), strconv.Itoa(i+1), map[string]string{"l": "x"}))
			}
			g.root.Cache().Sync(objs)
			g.root.MakeReady()
			fs, err := g.root.Publisher().SubscribeWithFilter(kit.TAll().Build())
			if err != nil {
				r.V("C11", "tree-build-error", "%v", err)
				return
			}
			add("filtered subscription with an idle reader", fs.Done(), fs.Events())
			sib, _ := g.root.Publisher().Subscribe()
			go func() {
				for range sib.Events() {
				}
			}()
			add("sibling subscriber", sib.Done(), nil)
			g.barrier()
			rdone := make(chan struct{})
			go func() { fs.Refilter(kit.TNull().Build()); close(rdone) }()
			waitCh(rdone, time.Second) // may legitimately take as long as it likes, we only give it time
			g.barrier()
			victim = func() { fs.Close() }
		}
		g.barrier()
		if closeSelf {
			go victim()
			if !waitCh(watch[len(watch)-1-b2i(variant == "refilter")], virtBound) {
				r.V("C11", "descendant-not-closed", "%s: the node with the overrun buffer was closed by its owner: its Done() is not closed %v later\n%s", variant, virtBound, kit.CensusText(kit.Census(), 10))
				g.cancel()
				return
			}
			r.Add("subtree-nodes-checked", 1)
		}
		g.root.Stop()
		for i, d := range watch {
			if !waitCh(d, virtBound) {
				r.V("C11", "descendant-not-closed", "%s: the root was stopped after a buffer had overrun: %s is not done %v later\n%s", variant, names[i], virtBound, kit.CensusText(kit.Census(), 10))
				g.cancel()
				return
			}
			r.Add("subtree-nodes-checked", 1)
			if evch[i] != nil {
				closed := make(chan struct{})
				go func(ch <-chan kcache.Event) {
					for range ch {
					}
					close(closed)
				}(evch[i])
				if !waitCh(closed, virtBound) {
					r.V("C11", "events-not-closed", "%s: %s is done but its Events() channel is never closed behind the buffered events", variant, names[i])
					g.cancel()
					return
				}
			}
		}
		r.Add("overrun-then-close-cases", 1)
		g.stop(r, "C12")
		r.Key(id)
	}}
}

func b2i(b bool) int {
	if b {
		return 1
	}
	return 0
}


// e12AfterReconnectCase: the watch dropped once and was re-established by the
// reconnect delay (no relist since); then the controller is closed or its next
// list fails.  Everything closes.
func e12AfterReconnectCase(seed uint64, n int) Case {
	mech := []string{"close", "list-error", "cancel"}[n%3]
	id := fmt.Sprintf("E12/after-reconnect/%s/%d/%d", mech, seed, n)
	return Case{ID: id, Desc: map[string]interface{}{"mechanism": mech, "what": "closed after a watch reconnect through the retry delay"}, Bubble: true, Run: func(r *Res) {
		rng := kit.NewRng(kit.Mix(seed, uint64(n)+1299))
		core := kit.NewCore(&kit.Plan{Seed: rng.U64(), PYield: 100, PSleep: 20, MaxSleep: 60 * time.Microsecond})
		srv := kit.NewPodServer(core)
		u := smallUniverse()
		for i := 0; i < 4; i++ {
			u.mutate(rng, srv)
		}
		var fail atomic.Bool
		srv.ListPlan = func(i int) kit.ListFault {
			if fail.Load() {
				return kit.ListFault{Kind: kit.ListErr}
			}
			return kit.ListFault{}
		}
		srv.WatchPlan = func(i int) kit.WatchFault {
			f := kit.NoWatchFault()
			if i <= 1+n%2 {
				f.CloseAfter = 2
			}
			return f
		}
		P := 10 * time.Second
		g, err := newCtlRig(core, srv, P, nil)
		if err != nil {
			r.Inc(err.Error())
			return
		}
		t := newTree(g.ctl)
		if err := t.grow(rng, 5, 3, filterFamily(), childKinds, true); err != nil {
			r.V("C11", "tree-build-error", "%v", err)
			return
		}
		if !waitCh(g.ctl.Ready(), virtBound) {
			r.V("C11", "never-ready", "controller not ready")
			return
		}
		for k := 0; k < 1+n%2; k++ {
			u.mutate(rng, srv)
			u.mutate(rng, srv) // the stream ends
			time.Sleep(kcache.VerifWatchRetryDelay + 200*time.Millisecond) // reconnected
		}
		u.mutate(rng, srv)
		g.barrier()
		switch mech {
		case "close":
			go g.ctl.Close()
		case "cancel":
			g.cancel()
		case "list-error":
			fail.Store(true)
		}
		bound := 2*P + 10*time.Second
		for _, nd := range t.nodes {
			if !waitCh(nd.done, bound) {
				r.V("C11", "descendant-not-closed", "the watch had been re-established through the reconnect delay; %s: %s is not done %v later (controller Error() = %v)\n%s", mech, nd, bound, g.ctl.Error(), kit.CensusText(kit.Census(), 12))
				g.cancel()
				return
			}
			r.Add("subtree-nodes-checked", 1)
		}
		g.cancel()
		g.barrier()
		if gs := kit.Census(); len(gs) > 0 {
			r.V("C12", "goroutine-leak", "closed after a reconnect (%s): %d library goroutines remain: %v", mech, len(gs), kit.CensusKeys(gs))
		}
		r.Key(id)
	}}
}

// e12TailCase: a burst of events immediately followed by the shutdown of the
// root: every subscriber - plain, filtered (accept-all) and below filtered
// clones - still receives everything that was published before its Events()
// channel is closed.
func e12TailCase(seed uint64, n int) Case {
	id := fmt.Sprintf("E12/burst-then-stop/%d/%d", seed, n)
	return Case{ID: id, Desc: map[string]interface{}{"n": n, "what": "buffered events are delivered before Events() is closed, at filtered nodes too"}, Bubble: true, Run: func(r *Res) {
		rng := kit.NewRng(kit.Mix(seed, uint64(n)+1298))
		core := kit.NewCore(&kit.Plan{Seed: rng.U64(), PYield: 100, PSleep: 30, MaxSleep: 80 * time.Microsecond})
		g := newRootRig(core, nil)
		u := smallUniverse()
		g.root.MakeReady()
		t := newTree(g.root.Publisher())
		var leaves []*node
		for _, k := range []string{"sub", "subwf", "clonewf", "subff"} {
			nd, err := t.addChild(t.root, k, kit.TNull(), true)
			if err != nil {
				r.V("C11", "tree-build-error", "%v", err)
				return
			}
			if nd.deferred {
				nd.refilt(kit.TNull())
				nd.filter, nd.supplied = kit.TNull(), true
			}
			if nd.isController() {
				if nd, err = t.addChild(nd, "sub", nil, true); err != nil {
					r.V("C11", "tree-build-error", "%v", err)
					return
				}
			}
			leaves = append(leaves, nd)
		}
		g.barrier()
		for _, l := range leaves {
			if l.mir != nil {
				l.mir.seed(kit.Snap{})
			}
		}
		k := 10 + rng.Intn(40)
		for i := 0; i < k; i++ {
			g.mutate(rng, u)
		}
		g.root.Stop() // at once: the events are still on their way down
		for _, l := range leaves {
			if !waitCh(l.done, virtBound) {
				r.V("C11", "descendant-not-closed", "%s not done after the root stopped", l)
				return
			}
		}
		g.barrier()
		sent := g.sent
		for _, l := range leaves {
			r.Add("subtree-nodes-checked", 1)
			if !l.mir.isClosed() {
				r.V("C11", "events-not-closed", "%s: Events() not closed after the root stopped", l)
				continue
			}
			if got := l.mir.events(); len(got) != len(sent) {
				r.V("C11", "events-closed-before-buffered-events", "%d events were published and the root stopped at once; %s received %d of them before its Events() channel was closed (last: %s)", len(sent), l, len(got), tailEvents(got, 3))
			}
		}
		g.stop(r, "C12")
		r.Key(id)
	}}
}

func init() {
	register("E12", func(tier string, seed uint64) []Case {
		var cases []Case
		for i := 0; i < tierPick(tier, 12, 600); i++ {
			cases = append(cases, e12OverrunCase(seed, i, []string{"catch-up", "refilter"}[i/2%2]))
		}
		for i := 0; i < tierPick(tier, 12, 300); i++ {
			cases = append(cases, e12AfterReconnectCase(seed, i))
		}
		for i := 0; i < tierPick(tier, 16, 600); i++ {
			cases = append(cases, e12TailCase(seed, i))
		}
		for tr := 0; tr < tierPick(tier, 8, 60); tr++ {
			K := tierPick(tier, 64, 128)
			for k := 0; k < K; k++ {
				cases = append(cases, e12PointCase(seed, tr, []string{"cancel", "close"}[(k+tr)%2], k, K, false))
			}
			KC := tierPick(tier, 8, 16)
			for k := 0; k < KC; k++ {
				cases = append(cases, e12PointCase(seed, tr, "cancel", k, KC, true))
			}
		}
		nt := tierPick(tier, 6, 1500)
		for tr := 0; tr < nt; tr++ {
			size := e12TreeSize(seed, tr)
			for v := 0; v < size; v++ {
				for mi, m := range e12Moments {
					if tier == "quick" && (v+mi+tr)%2 == 1 && v > 1 {
						continue
					}
					mechs := []string{"close"}
					if v == 0 {
						mechs = []string{"close", "cancel", "list-error"}
					}
					for _, mech := range mechs {
						if m == "list-blocked" && mech == "list-error" {
							continue // the blocked list never returns, so no later list can fail
						}
						cases = append(cases, e12Case(seed, tr, v, m, mech, (tr+v+mi)%5 == 4 && m != "refiltering"))
					}
				}
			}
		}
		for i := 0; i < tierPick(tier, 12, 300); i++ {
			cases = append(cases, e12NeverReadyCase(seed, i))
		}
		// joins as tree members: closing a join closes what the join created and
		// nothing else (E10's create/close cycles, close-related classes)
		closeClasses := map[string]bool{"join-leaks-goroutines": true, "join-close-hang": true, "join-close-stops-base": true}
		for _, k := range []string{"ingress-pods", "service-pod", "deployment-pod", "ingress-service"} {
			for i := 0; i < tierPick(tier, 4, 40); i++ {
				cases = append(cases, e10As(e10Case(k, seed, i), "C11", closeClasses))
			}
		}
		return cases
	})
}
