package engines

import (
	"fmt"
	"sync"
	"time"

	"github.com/boz/kcache"
	metav1 "k8s.io/apimachinery/pkg/apis/meta/v1"

	"verifharness/kit"
)

// node is one element of a Subscribe/Clone tree below a publisher.
type node struct {
	id       int
	kind     string // root sub subwf subff clone clonewf cloneff monitor
	parent   *node
	children []*node

	pub    kcache.Publisher // non-nil for controller-like nodes
	cc     kcache.CacheController
	events <-chan kcache.Event
	done   <-chan struct{}
	closer func()
	refilt func(f *kit.Term) error

	filter   *kit.Term // last filter whose Refilter returned nil / initial filter
	deferred bool
	supplied bool // deferred node: a filter has been supplied
	mir      *mirror
	handler  *recHandler
	stalled  bool
}

func (n *node) String() string { return fmt.Sprintf("%s#%d", n.kind, n.id) }

func (n *node) isController() bool { return n.pub != nil }
func (n *node) isFiltered() bool {
	return n.kind == "subwf" || n.kind == "subff" || n.kind == "clonewf" || n.kind == "cloneff"
}

// subtree returns n and all its descendants.
func (n *node) subtree() []*node {
	out := []*node{n}
	for _, c := range n.children {
		out = append(out, c.subtree()...)
	}
	return out
}

type tree struct {
	root  *node
	nodes []*node
}

var childKinds = []string{"sub", "subwf", "subff", "clone", "clonewf", "cloneff", "monitor"}

// addChild creates a child of kind under p.  f is used by the filtered kinds.
// drain: start a mirror consumer on event-bearing nodes.
func (t *tree) addChild(p *node, kind string, f *kit.Term, drain bool) (*node, error) {
	n := &node{id: len(t.nodes), kind: kind, parent: p}
	var err error
	switch kind {
	case "sub":
		var s kcache.Subscription
		if s, err = p.pub.Subscribe(); err == nil {
			n.cc, n.events, n.done, n.closer = s, s.Events(), s.Done(), s.Close
		}
	case "subwf", "subff":
		var s kcache.FilterSubscription
		if kind == "subwf" {
			s, err = p.pub.SubscribeWithFilter(f.Build())
			n.filter = f
		} else {
			s, err = p.pub.SubscribeForFilter()
			n.filter = kit.TAll()
			n.deferred = true
		}
		if err == nil {
			n.cc, n.events, n.done, n.closer = s, s.Events(), s.Done(), s.Close
			n.refilt = func(t *kit.Term) error { return s.Refilter(t.Build()) }
		}
	case "clone":
		var c kcache.Controller
		if c, err = p.pub.Clone(); err == nil {
			n.pub, n.cc, n.done, n.closer = c, c, c.Done(), c.Close
		}
	case "clonewf", "cloneff":
		var c kcache.FilterController
		if kind == "clonewf" {
			c, err = p.pub.CloneWithFilter(f.Build())
			n.filter = f
		} else {
			c, err = p.pub.CloneForFilter()
			n.filter = kit.TAll()
			n.deferred = true
		}
		if err == nil {
			n.pub, n.cc, n.done, n.closer = c, c, c.Done(), c.Close
			n.refilt = func(t *kit.Term) error { return c.Refilter(t.Build()) }
		}
	case "monitor":
		h := newRecHandler()
		var m kcache.Monitor
		if m, err = kcache.NewMonitor(p.pub, h); err == nil {
			n.done, n.closer, n.handler = m.Done(), m.Close, h
		}
	default:
		panic("harness: kind " + kind)
	}
	if err != nil {
		return nil, err
	}
	if drain && n.events != nil {
		n.mir = startMirror(n.String(), n.events, n.cc.Ready(), n.cc.Cache())
	}
	p.children = append(p.children, n)
	t.nodes = append(t.nodes, n)
	return n, nil
}

func newTree(pub kcache.Controller) *tree {
	root := &node{id: 0, kind: "root", pub: pub, cc: pub, done: pub.Done(), closer: pub.Close, filter: kit.TNull()}
	return &tree{root: root, nodes: []*node{root}}
}

// grow adds count random nodes (depth-limited).
func (t *tree) grow(rng *kit.Rng, count, maxDepth int, fam []*kit.Term, kinds []string, drain bool) error {
	for i := 0; i < count; i++ {
		var cands []*node
		for _, n := range t.nodes {
			if n.isController() && t.depth(n) < maxDepth {
				cands = append(cands, n)
			}
		}
		if len(cands) == 0 {
			return nil
		}
		p := cands[rng.Intn(len(cands))]
		k := kinds[rng.Intn(len(kinds))]
		if _, err := t.addChild(p, k, fam[rng.Intn(len(fam))], drain); err != nil {
			return err
		}
	}
	return nil
}

func (t *tree) depth(n *node) int {
	d := 0
	for p := n.parent; p != nil; p = p.parent {
		d++
	}
	return d
}

// effective reports whether o is expected in n's cache given the conjunction
// of the filters on the path from the root (deferred nodes without a supplied
// filter hold nothing).
func (t *tree) effective(n *node, o metav1.Object) bool {
	for x := n; x != nil; x = x.parent {
		cn := x
		if !cn.isFiltered() && cn.kind != "root" {
			continue
		}
		if cn.filter != nil && !cn.filter.Eval(o) {
			return false
		}
	}
	return true
}

// cacheOwner returns the node whose cache n exposes (plain subs and clones
// share their parent's cache).
func (t *tree) cacheOwner(n *node) *node {
	for x := n; x != nil; x = x.parent {
		if x.isFiltered() || x.kind == "root" {
			return x
		}
	}
	return t.root
}

// recHandler records monitor callbacks (C16) and can be made slow or blocked.
type recHandler struct {
	mu          sync.Mutex
	calls       []hcall
	inflight    int
	maxInfl     int
	delay       time.Duration
	block       chan struct{} // non-nil: every callback waits on it
	core        *kit.Core
	doneCh      <-chan struct{}
	afterDn     int
	runningAtDn int
}

type hcall struct {
	Kind string
	Objs []metav1.Object
	At   time.Time
}

func newRecHandler() *recHandler { return &recHandler{} }

func (h *recHandler) enter(kind string, objs []metav1.Object) {
	h.mu.Lock()
	h.inflight++
	if h.inflight > h.maxInfl {
		h.maxInfl = h.inflight
	}
	if h.doneCh != nil && isClosed(h.doneCh) {
		h.afterDn++
	}
	h.calls = append(h.calls, hcall{kind, objs, time.Now()})
	d, b, core := h.delay, h.block, h.core
	h.mu.Unlock()
	if b != nil {
		<-b
	}
	if d > 0 {
		if core != nil {
			core.Sleep(d)
		} else {
			time.Sleep(d)
		}
	}
	h.mu.Lock()
	if h.doneCh != nil && isClosed(h.doneCh) {
		// Done() closed while this callback was still running
		h.runningAtDn++
	}
	h.inflight--
	h.mu.Unlock()
}

func (h *recHandler) OnInitialize(objs []metav1.Object) { h.enter("init", objs) }
func (h *recHandler) OnCreate(o metav1.Object)          { h.enter("create", []metav1.Object{o}) }
func (h *recHandler) OnUpdate(o metav1.Object)          { h.enter("update", []metav1.Object{o}) }
func (h *recHandler) OnDelete(o metav1.Object)          { h.enter("delete", []metav1.Object{o}) }

func (h *recHandler) snapshot() []hcall {
	h.mu.Lock()
	defer h.mu.Unlock()
	return append([]hcall(nil), h.calls...)
}
