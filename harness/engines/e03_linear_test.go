package engines

// E3: cache reads are atomic snapshots, linearizable with updates (C15).
// Real parallelism (no bubble), race detector on, porcupine as the checker.

import (
	"fmt"
	"runtime"
	"sort"
	"strings"
	"sync"
	"sync/atomic"
	"time"

	"github.com/anishathalye/porcupine"
	"github.com/boz/kcache"
	metav1 "k8s.io/apimachinery/pkg/apis/meta/v1"

	"verifharness/kit"
)

type e3in struct {
	Kind string // list get sync update refilter
	Key  string
	Typ  kcache.EventType
	Obj  mobj
	List []mobj
	F    int
}

func (i e3in) String() string {
	switch i.Kind {
	case "list":
		return "List()"
	case "get":
		return "Get(" + i.Key + ")"
	case "update":
		return fmt.Sprintf("update(%s,%s)", i.Typ, i.Obj)
	case "sync":
		return fmt.Sprintf("sync(%v)", i.List)
	}
	return fmt.Sprintf("refilter(%v,F%d)", i.List, i.F)
}

var e3Keys = []string{"n0/a", "n0/b", "n1/a", "n1/b"}

func e3Filters() []*kit.Term {
	return []*kit.Term{kit.TNull(), kit.TLabels(map[string]string{"l": "x"}), kit.TNSName(nsnameNew("n0", "")), kit.TNot(kit.TLabels(map[string]string{"l": "y"}))}
}

// state encoding: "F<i>|key@rv~lab;key@rv~lab" (keys sorted)
func e3Encode(f int, c cstate) string {
	var ks []string
	for k := range c {
		ks = append(ks, k)
	}
	sort.Strings(ks)
	var b strings.Builder
	fmt.Fprintf(&b, "F%d|", f)
	for i, k := range ks {
		if i > 0 {
			b.WriteByte(';')
		}
		b.WriteString(k + "@" + c[k].id())
	}
	return b.String()
}

func e3Decode(s string) (int, cstate) {
	var f int
	parts := strings.SplitN(s, "|", 2)
	fmt.Sscanf(parts[0], "F%d", &f)
	c := cstate{}
	if len(parts) > 1 && parts[1] != "" {
		for _, e := range strings.Split(parts[1], ";") {
			ka := strings.SplitN(e, "@", 2)
			nn := strings.SplitN(ka[0], "/", 2)
			vl := strings.SplitN(ka[1], "~", 2)
			c[ka[0]] = mobj{nn[0], nn[1], vl[0], vl[1]}
		}
	}
	return f, c
}

func e3Content(c cstate) string {
	s := e3Encode(0, c)
	return s[strings.Index(s, "|")+1:]
}

func e3Events(evts []kcache.Event) string {
	var s []string
	for _, e := range evts {
		s = append(s, fmt.Sprintf("%s %s@%s", e.Type(), kit.Key(e.Resource()), idOf(e.Resource())))
	}
	sort.Strings(s)
	return strings.Join(s, ",")
}

func e3Diff(pre, post cstate) string {
	var s []string
	for k, p := range pre {
		q, ok := post[k]
		switch {
		case !ok:
			s = append(s, fmt.Sprintf("delete %s@", k)) // the delete event's object is not fixed by the model
		case q.id() != p.id():
			s = append(s, fmt.Sprintf("update %s@%s", k, q.id()))
		}
	}
	for k, q := range post {
		if _, ok := pre[k]; !ok {
			s = append(s, fmt.Sprintf("create %s@%s", k, q.id()))
		}
	}
	sort.Strings(s)
	return strings.Join(s, ",")
}

// normalise delete events (their object may be the cached or the wire object)
func e3NormEvents(s string) string {
	if s == "" {
		return s
	}
	parts := strings.Split(s, ",")
	for i, p := range parts {
		if strings.HasPrefix(p, "delete ") {
			parts[i] = p[:strings.Index(p, "@")+1]
		}
	}
	sort.Strings(parts)
	return strings.Join(parts, ",")
}

func e3Model() porcupine.Model {
	fs := e3Filters()
	return porcupine.Model{
		Init: func() interface{} { return e3Encode(0, cstate{}) },
		Step: func(st, in, out interface{}) (bool, interface{}) {
			s := st.(string)
			i := in.(e3in)
			o := out.(string)
			f, c := e3Decode(s)
			switch i.Kind {
			case "list":
				return o == e3Content(c), s
			case "get":
				want := ""
				if m, ok := c[i.Key]; ok {
					want = i.Key + "@" + m.id()
				}
				return o == want, s
			case "update":
				a := modelUpdate(c, i.Typ, i.Obj, fs[f])
				post := c.clone()
				if len(a) > 1 {
					// unspecified zone U1 (a delete older than the cached version, possible
					// with two writers): either outcome is allowed; the returned events say
					// which one the cache took
					if strings.Contains(o, "delete "+i.Obj.key()+"@") {
						delete(post, i.Obj.key())
					}
					return e3NormEvents(o) == e3Diff(c, post), e3Encode(f, post)
				}
				for id := range a { // singleton otherwise
					if id == absent {
						delete(post, i.Obj.key())
					} else if id == i.Obj.id() {
						post[i.Obj.key()] = i.Obj
					}
				}
				return e3NormEvents(o) == e3Diff(c, post), e3Encode(f, post)
			default:
				nf := f
				if i.Kind == "refilter" {
					nf = i.F
				}
				al := modelSync(c, i.List, fs[nf])
				post := cstate{}
				byID := map[string]mobj{}
				for _, e := range i.List {
					byID[e.key()+"@"+e.id()] = e
				}
				for k, a := range al {
					for id := range a {
						if id == absent {
							continue
						}
						if m, ok := byID[k+"@"+id]; ok {
							post[k] = m
						} else {
							post[k] = c[k]
						}
					}
				}
				return e3NormEvents(o) == e3Diff(c, post), e3Encode(nf, post)
			}
		},
		Equal: func(a, b interface{}) bool { return a.(string) == b.(string) },
		DescribeOperation: func(in, out interface{}) string {
			return fmt.Sprintf("%v -> %q", in, out)
		},
	}
}

type e3desc struct {
	Seed    uint64 `json:"seed"`
	N       int    `json:"n"`
	Writers int    `json:"writers"`
	Readers int    `json:"readers"`
	Writes  int    `json:"writes_per_writer"`
	Procs   int    `json:"gomaxprocs"`
}

func e3Case(seed uint64, n int) Case {
	rng0 := kit.NewRng(kit.Mix(seed, uint64(n)+300))
	W := 1 + rng0.Intn(2)
	R := 1 + rng0.Intn(8)
	writes := 10 + rng0.Intn(30)/W
	procs := []int{2, 4, 8, 16}[rng0.Intn(4)]
	d := e3desc{seed, n, W, R, writes, procs}
	id := fmt.Sprintf("E3/%d/%d", seed, n)
	return Case{ID: id, Desc: d, Bubble: false, Run: func(r *Res) {
		old := runtime.GOMAXPROCS(procs)
		defer runtime.GOMAXPROCS(old)
		fs := e3Filters()
		ctx, cancel := ctxWithCancel()
		c := kcache.VerifNewCache(ctx, kit.NullLog{Yield: true}, nil, fs[0].Build())
		defer func() { cancel(); <-c.Done() }()
		var clock atomic.Int64
		var version atomic.Int64
		var mu sync.Mutex
		var ops []porcupine.Operation
		record := func(client int, in e3in, call int64, out string) {
			ret := clock.Add(1)
			mu.Lock()
			ops = append(ops, porcupine.Operation{ClientId: client, Input: in, Call: call, Output: out, Return: ret})
			mu.Unlock()
		}
		var wg sync.WaitGroup
		var writersDone atomic.Int32
		labs := []string{"x", "y", ""}
		for w := 0; w < W; w++ {
			wg.Add(1)
			rng := rng0.Fork(uint64(w) + 1)
			go func(w int) {
				defer wg.Done()
				defer writersDone.Add(1)
				for i := 0; i < writes; i++ {
					var in e3in
					switch x := rng.Intn(10); {
					case x < 4: // a generation: full list with fresh versions
						gen := version.Add(int64(len(e3Keys))) - int64(len(e3Keys)) + 1 // reserves gen..gen+3
						var l []mobj
						for ki, k := range e3Keys {
							if rng.Chance(80) {
								p := strings.SplitN(k, "/", 2)
								l = append(l, mobj{p[0], p[1], fmt.Sprint(gen + int64(ki)), labs[rng.Intn(3)]})
							}
						}
						in = e3in{Kind: "sync", List: l}
						if x == 3 {
							in.Kind, in.F = "refilter", rng.Intn(len(fs))
						}
					default:
						k := e3Keys[rng.Intn(len(e3Keys))]
						p := strings.SplitN(k, "/", 2)
						typ := []kcache.EventType{kcacheCreate, kcacheUpdate, kcacheUpdate, kcacheDelete}[rng.Intn(4)]
						in = e3in{Kind: "update", Typ: typ, Obj: mobj{p[0], p[1], fmt.Sprint(version.Add(1)), labs[rng.Intn(3)]}}
					}
					call := clock.Add(1)
					var evts []kcache.Event
					var err error
					switch in.Kind {
					case "sync":
						evts, err = c.Sync(podsOf(in.List))
					case "refilter":
						evts, err = c.Refilter(podsOf(in.List), fs[in.F].Build())
					case "update":
						evts, err = c.Update(kcache.NewEvent(in.Typ, in.Obj.pod()))
					}
					if err != nil {
						r.V("C15", "write-error", "%v: %v", in, err)
						return
					}
					record(w, in, call, e3Events(evts))
					if rng.Chance(30) {
						runtime.Gosched()
					}
				}
			}(w)
		}
		var reads atomic.Int64
		for rd := 0; rd < R; rd++ {
			wg.Add(1)
			rng := rng0.Fork(uint64(rd) + 100)
			go func(rd int) {
				defer wg.Done()
				lastGen := map[string]int{}
				for n := 0; n < 300/R+20; n++ {
					if writersDone.Load() == int32(W) && n > 5 {
						return
					}
					if rng.Chance(70) {
						call := clock.Add(1)
						l, err := c.List()
						if err != nil {
							r.V("C15", "read-error", "List: %v", err)
							return
						}
						cs := cstate{}
						for _, o := range l {
							if o == nil {
								r.V("C15", "slice-shared", "reader %d: List() returned a slice holding a nil entry: it is shared with another caller, who overwrote its own result", rd)
								return
							}
							cs[kit.Key(o)] = mobj{o.GetNamespace(), o.GetName(), o.GetResourceVersion(), o.GetLabels()["l"]}
						}
						record(W+rd, e3in{Kind: "list"}, call, e3Content(cs))
						// per-reader monotonicity of each key's version
						for k, m := range cs {
							v, _ := m.ver()
							if W == 1 && v < lastGen[k] {
								r.V("C15", "reader-went-backwards", "reader %d saw %s at version %d after having seen version %d", rd, k, v, lastGen[k])
							}
							lastGen[k] = v
						}
						// ownership: scribble over the returned slice
						for i := range l {
							l[i] = nil
						}
						l = append(l, kit.Pod("junk", "junk", "0", nil), kit.Pod("junk", "junk2", "0", nil))
						_ = l
					} else {
						k := e3Keys[rng.Intn(len(e3Keys))]
						p := strings.SplitN(k, "/", 2)
						call := clock.Add(1)
						o, err := c.Get(p[0], p[1])
						if err != nil {
							r.V("C15", "read-error", "Get: %v", err)
							return
						}
						out := ""
						if o != nil {
							out = k + "@" + idOf(o)
						}
						record(W+rd, e3in{Kind: "get", Key: k}, call, out)
					}
					reads.Add(1)
					if rng.Chance(20) {
						runtime.Gosched()
					}
				}
			}(rd)
		}
		wg.Wait()
		if r.Failed() {
			sort.Slice(ops, func(i, j int) bool { return ops[i].Call < ops[j].Call })
			var b strings.Builder
			for _, o := range ops {
				fmt.Fprintf(&b, "c%d [%d,%d] %v -> %q\n", o.ClientId, o.Call, o.Return, o.Input, o.Output)
			}
			r.V("C15", "history-of-failed-run", "%s", b.String())
			return
		}
		res, info := porcupine.CheckOperationsVerbose(e3Model(), ops, 60*time.Second)
		r.Add("histories", 1)
		r.Add("operations", int64(len(ops)))
		r.Add("reads", reads.Load())
		switch res {
		case porcupine.Ok:
			r.Add("linearizable", 1)
		case porcupine.Unknown:
			r.Inc("porcupine timed out on a history of " + fmt.Sprint(len(ops)) + " operations")
		case porcupine.Illegal:
			_ = info
			sort.Slice(ops, func(i, j int) bool { return ops[i].Call < ops[j].Call })
			var b strings.Builder
			for i, o := range ops {
				if i > 120 {
					b.WriteString("...\n")
					break
				}
				fmt.Fprintf(&b, "c%d [%d,%d] %v -> %q\n", o.ClientId, o.Call, o.Return, o.Input, o.Output)
			}
			r.V("C15", "not-linearizable", "history of %d operations (%d writers, %d readers) has no linearization against the sequential cache model:\n%s", len(ops), W, R, b.String())
		}
		// the junk appended by readers must not have leaked into the cache
		l, _ := c.List()
		for _, o := range l {
			if o == nil || o.GetNamespace() == "junk" {
				r.V("C15", "slice-shared", "an object written by a reader into its returned slice appeared in the cache")
			}
		}
		r.Key(id)
		r.Sample = map[string]interface{}{"desc": d, "operations": len(ops), "result": fmt.Sprint(res)}
	}}
}

var _ metav1.Object

// e3BigCase: relists/refilters of MANY objects alternating between
// distinguishable complete states; every List() must be exactly one of them.
func e3BigCase(seed uint64, n int) Case {
	rng0 := kit.NewRng(kit.Mix(seed, uint64(n)+3300))
	N := []int{130, 300, 1000, 257}[n%4]
	disjoint := (n/4)%2 == 0
	R := 2 + rng0.Intn(5)
	G := 24
	procs := []int{4, 8, 16}[rng0.Intn(3)]
	d := map[string]interface{}{"seed": seed, "n": n, "objects_per_state": N, "disjoint_key_sets": disjoint, "readers": R, "generations": G, "gomaxprocs": procs}
	id := fmt.Sprintf("E3/big/%d/%d", seed, n)
	return Case{ID: id, Desc: d, Bubble: false, Run: func(r *Res) {
		old := runtime.GOMAXPROCS(procs)
		defer runtime.GOMAXPROCS(old)
		ctx, cancel := ctxWithCancel()
		// the cache's filter accepts everything; when armed it cancels the context from
		// inside the relist, at its armAt-th object
		var closing atomic.Bool // the context is being cancelled: reads may now fail (ErrNotRunning), but never lie
		var armed atomic.Bool
		var accepts atomic.Int64
		armAt := int64(1 + rng0.Intn(N-1))
		F := kit.TFN("accept-all(counting)", func(metav1.Object) bool {
			if armed.Load() && accepts.Add(1) == armAt {
				closing.Store(true)
				cancel()
			}
			return true
		})
		c := kcache.VerifNewCache(ctx, kit.NullLog{Yield: true}, nil, F.Build())
		defer func() { cancel(); <-c.Done() }()
		gen := func(g int) []metav1.Object {
			out := make([]metav1.Object, N)
			for i := 0; i < N; i++ {
				name := fmt.Sprintf("k%04d", i)
				if disjoint {
					name = fmt.Sprintf("%c%04d", 'a'+byte(g%2), i)
				}
				out[i] = kit.Pod("ns", name, fmt.Sprint(g*2000+i), map[string]string{"g": fmt.Sprint(g)})
			}
			return out
		}
		var cur atomic.Int64 // generation whose write has STARTED
		var done atomic.Bool
		var wg sync.WaitGroup
		var snaps atomic.Int64
		for rd := 0; rd < R; rd++ {
			wg.Add(1)
			go func(rd int) {
				defer wg.Done()
				last := 0
				for !done.Load() {
					started := int(cur.Load())
					l, err := c.List()
					if err != nil {
						if closing.Load() {
							return
						}
						r.V("C15", "read-error", "List: %v", err)
						return
					}
					snaps.Add(1)
					if len(l) == 0 {
						if last > 0 {
							r.V("C15", "torn-snapshot", "reader %d: List() returned an empty cache after generation %d had been seen (%d objects per state)", rd, last, N)
							return
						}
						continue
					}
					gens := map[string]int{}
					for _, o := range l {
						if o == nil {
							r.V("C15", "slice-shared", "reader %d: List() returned a slice holding a nil entry: it is shared with another caller, who overwrote its own result", rd)
							return
						}
						gens[o.GetLabels()["g"]]++
					}
					if len(gens) != 1 || len(l) != N {
						r.V("C15", "torn-snapshot", "reader %d: List() returned %d objects from generations %v while the writer alternates between complete states of %d objects (disjoint key sets: %v): a half-applied relist/refilter was observed", rd, len(l), gens, N, disjoint)
						return
					}
					g := kit.Atoi(l[0].GetLabels()["g"])
					if g < last {
						r.V("C15", "reader-went-backwards", "reader %d saw generation %d after generation %d", rd, g, last)
						return
					}
					if g < started-1 {
						r.V("C15", "stale-snapshot", "reader %d: List() called after the write of generation %d had started returned generation %d although generation %d was complete", rd, started, g, started-1)
						return
					}
					last = g
					for i := range l {
						l[i] = nil
					}
				}
			}(rd)
		}
		// Get() readers: every generation stamps all of its objects, so the generations
		// one caller sees through successive Get() calls on ANY keys (and an occasional
		// List()) never decrease, and a Get() issued after generation g's write started
		// sees at least g-1.  (A cache that answers Get() from a side structure updated
		// object by object passes every List() check above.)
		var gets atomic.Int64
		for gd := 0; gd < 2; gd++ {
			wg.Add(1)
			rng := rng0.Fork(uint64(gd) + 700)
			go func(gd int) {
				defer wg.Done()
				last, lastKey := 0, ""
				for it := 0; !done.Load(); it++ {
					started := int(cur.Load())
					i := rng.Intn(N)
					if it%2 == 1 {
						// favour the two ends of the list: far apart in any apply order
						i = []int{0, N - 1, 1, N - 2}[rng.Intn(4)]
					}
					name := fmt.Sprintf("k%04d", i)
					if disjoint {
						name = fmt.Sprintf("%c%04d", 'a'+byte(rng.Intn(2)), i)
					}
					var o metav1.Object
					var err error
					viaList := it%8 == 7
					if viaList {
						var l []metav1.Object
						l, err = c.List()
						if len(l) > 0 {
							o = l[rng.Intn(len(l))]
						}
					} else {
						o, err = c.Get("ns", name)
					}
					if err != nil {
						if closing.Load() {
							return
						}
						r.V("C15", "read-error", "Get/List: %v", err)
						return
					}
					gets.Add(1)
					if o == nil {
						if !disjoint && !viaList && last > 0 {
							r.V("C15", "torn-get", "getter %d: Get(ns/%s) returned nothing after generation %d had been seen, although every generation holds all %d keys", gd, name, last, N)
							return
						}
						continue
					}
					g := kit.Atoi(o.GetLabels()["g"])
					if g < last {
						r.V("C15", "reader-went-backwards", "getter %d: read of %s returned generation %d after its previous read (%s) had returned generation %d: successive reads by one caller went backwards (a relist observed half-applied across keys)", gd, kit.Key(o), g, lastKey, last)
						return
					}
					if g < started-1 {
						r.V("C15", "stale-snapshot", "getter %d: read of %s issued after the write of generation %d had started returned generation %d although generation %d was complete", gd, kit.Key(o), started, g, started-1)
						return
					}
					last, lastKey = g, kit.Key(o)
				}
			}(gd)
		}
		for g := 1; g <= G; g++ {
			cur.Store(int64(g))
			var err error
			if g%3 == 0 {
				_, err = c.Refilter(gen(g), F.Build())
			} else {
				_, err = c.Sync(gen(g))
			}
			if err != nil {
				r.V("C15", "write-error", "%v", err)
				break
			}
		}
		if n%2 == 1 {
			// the context is cancelled in the MIDDLE of one more relist while the readers
			// keep reading: a read may fail from now on, but one that succeeds is still a
			// complete generation
			cur.Store(int64(G + 1))
			armed.Store(true)
			c.Sync(gen(G + 1)) // the filter cancels the context at object armAt of this relist
			if !closing.Load() {
				r.Inc("the armed filter was not consulted during the relist")
				closing.Store(true)
				cancel()
			}
			<-c.Done()
			r.Add("cancelled-mid-relist", 1)
		}
		done.Store(true)
		wg.Wait()
		r.Add("big-histories", 1)
		r.Add("big-snapshots", snaps.Load())
		r.Add("big-gets", gets.Load())
		r.Key(id)
		r.Sample = map[string]interface{}{"desc": d, "snapshots_checked": snaps.Load()}
	}}
}

// e3ChurnCase: many caches live and die in one process while their readers are
// busy; a long-lived cache is read all along.  Whatever a cache returns must be
// ITS content: every object is stamped with the cache it was written to.
// (Real time, real parallelism: no bubble.)
func e3ChurnCase(seed uint64, n int) Case {
	id := fmt.Sprintf("E3/churn/%d/%d", seed, n)
	rng0 := kit.NewRng(kit.Mix(seed, uint64(n)+3900))
	procs := []int{2, 4, 8, 16}[rng0.Intn(4)]
	rounds := 120
	return Case{ID: id, Desc: map[string]interface{}{"seed": seed, "n": n, "short_lived_caches": rounds, "gomaxprocs": procs, "what": "reads on many caches racing with their shutdown; every result must come from the cache that was asked"}, Bubble: false, Run: func(r *Res) {
		old := runtime.GOMAXPROCS(procs)
		defer runtime.GOMAXPROCS(old)
		keys := []string{"a", "b", "c", "d", "e", "f"}
		fill := func(c *kcache.VerifCache, tag string, ver int) bool {
			var l []metav1.Object
			for i, k := range keys {
				l = append(l, kit.Pod("ns", k, fmt.Sprint(ver*10+i), map[string]string{"cache": tag}))
			}
			_, err := c.Sync(l)
			return err == nil
		}
		check := func(tag string, o metav1.Object, what string) bool {
			if o == nil {
				return true
			}
			if got := o.GetLabels()["cache"]; got != tag {
				r.V("C15", "foreign-object-returned", "%s on cache %q returned %s@%s, an object that was only ever written to cache %q", what, tag, kit.Key(o), o.GetResourceVersion(), got)
				return false
			}
			return true
		}
		lctx, lcancel := ctxWithCancel()
		long := kcache.VerifNewCache(lctx, kit.NullLog{Yield: true}, nil, kit.TNull().Build())
		defer func() { lcancel(); <-long.Done() }()
		if !fill(long, "long", 1) {
			r.Inc("could not fill the long-lived cache")
			return
		}
		var stop atomic.Bool
		var reads atomic.Int64
		var wg sync.WaitGroup
		for g := 0; g < 3; g++ {
			wg.Add(1)
			rng := rng0.Fork(uint64(g) + 50)
			go func() {
				defer wg.Done()
				lastV := map[string]int{}
				for !stop.Load() && !r.Failed() {
					k := keys[rng.Intn(len(keys))]
					o, err := long.Get("ns", k)
					if err != nil {
						r.V("C15", "read-error", "Get on the long-lived cache: %v", err)
						return
					}
					reads.Add(1)
					if o == nil {
						r.V("C15", "torn-get", "Get(ns/%s) on the long-lived cache returned nothing; the key is never deleted", k)
						return
					}
					if !check("long", o, "Get(ns/"+k+")") {
						return
					}
					if kit.Key(o) != "ns/"+k {
						r.V("C15", "foreign-object-returned", "Get(ns/%s) on the long-lived cache returned %s", k, kit.Key(o))
						return
					}
					v := kit.Atoi(o.GetResourceVersion())
					if v < lastV[k] {
						r.V("C15", "reader-went-backwards", "Get(ns/%s) on the long-lived cache returned version %d after %d", k, v, lastV[k])
						return
					}
					lastV[k] = v
				}
			}()
		}
		for round := 0; round < rounds && !r.Failed(); round++ {
			tag := fmt.Sprintf("s%d", round)
			ctx, cancel := ctxWithCancel()
			c := kcache.VerifNewCache(ctx, kit.NullLog{Yield: true}, nil, kit.TNull().Build())
			if !fill(c, tag, round+2) {
				cancel()
				continue
			}
			var swg sync.WaitGroup
			for g := 0; g < 4; g++ {
				swg.Add(1)
				rng := rng0.Fork(uint64(round*8+g) + 900)
				go func() {
					defer swg.Done()
					for i := 0; i < 400; i++ {
						k := keys[rng.Intn(len(keys))]
						o, err := c.Get("ns", k)
						if err != nil {
							return // the cache is going down: refusing is fine
						}
						reads.Add(1)
						if !check(tag, o, "Get(ns/"+k+")") {
							return
						}
						if i%16 == 15 {
							l, err := c.List()
							if err != nil {
								return
							}
							for _, o := range l {
								if !check(tag, o, "List()") {
									return
								}
							}
						}
					}
				}()
			}
			// the cache goes down while its readers are busy
			for i := 0; i < rng0.Intn(3000); i++ {
				_ = i * i
			}
			cancel()
			<-c.Done()
			swg.Wait()
			if round%10 == 9 {
				fill(long, "long", round+2) // the long-lived cache moves on (versions only grow)
			}
		}
		stop.Store(true)
		wg.Wait()
		r.Add("churn-caches", int64(rounds))
		r.Add("churn-reads", reads.Load())
		r.Key(id)
		r.Sample = map[string]interface{}{"short_lived_caches": rounds, "reads": reads.Load()}
	}}
}

func init() {
	register("E3", func(tier string, seed uint64) []Case {
		var cases []Case
		n := tierPick(tier, 320, 50000)
		for i := 0; i < n; i++ {
			cases = append(cases, e3Case(seed, i))
		}
		nb := tierPick(tier, 48, 6000)
		for i := 0; i < nb; i++ {
			cases = append(cases, e3BigCase(seed, i))
		}
		for i := 0; i < tierPick(tier, 16, 1500); i++ {
			cases = append(cases, e3ChurnCase(seed, i))
		}
		return cases
	})
}
