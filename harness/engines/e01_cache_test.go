package engines

// E1: direct drive of the cache actor against the reference model R-cache.
// Serves C01 (content) and C02 (events are an exact, minimal delta).

import (
	"context"
	"fmt"
	"runtime"
	"sort"
	"strconv"
	"strings"
	"sync"
	"sync/atomic"
	"time"

	"github.com/boz/kcache"
	"github.com/boz/kcache/nsname"
	metav1 "k8s.io/apimachinery/pkg/apis/meta/v1"
	"k8s.io/apimachinery/pkg/types"

	"verifharness/kit"
)

// mobj is an object of the model universe.
type mobj struct {
	ns, name, rv string
	lab          string // value of label "l" ("" = no label)
}

func (m mobj) key() string { return m.ns + "/" + m.name }
func (m mobj) pod() metav1.Object {
	var l map[string]string
	if m.lab != "" {
		l = map[string]string{"l": m.lab}
	}
	p := kit.Pod(m.ns, m.name, m.rv, l)
	// the UID varies with the version: an object deleted and re-created under the same
	// name (the delete may have been missed) is still the same KEY for the cache
	p.UID = types.UID(fmt.Sprintf("uid-%d", kit.HashStr(m.rv)%3))
	return p
}
func (m mobj) id() string     { return m.rv + "~" + m.lab }
func (m mobj) String() string { return m.key() + "@" + m.rv + "~" + m.lab }
func (m mobj) ver() (int, bool) {
	v := kit.Atoi(m.rv)
	if v == -1<<30 {
		return 0, false
	}
	return v, true
}

func idOf(o metav1.Object) string { return o.GetResourceVersion() + "~" + o.GetLabels()["l"] }

// cstate: model cache content, key -> object.
type cstate map[string]mobj

func (c cstate) clone() cstate {
	n := cstate{}
	for k, v := range c {
		n[k] = v
	}
	return n
}
func (c cstate) String() string {
	var ks []string
	for k := range c {
		ks = append(ks, c[k].String())
	}
	sort.Strings(ks)
	return "{" + strings.Join(ks, " ") + "}"
}

// outcome set for one key: ids allowed, "" meaning absent.
type allowed map[string]bool

const absent = "-"

func one(id string) allowed { return allowed{id: true} }

func keepIf(c mobj, has bool, F *kit.Term) string {
	if has && F.Eval(c.pod()) {
		return c.id()
	}
	return absent
}

// modelUpdate returns the allowed outcomes for the key of o.
func modelUpdate(pre cstate, typ kcache.EventType, o mobj, F *kit.Term) allowed {
	c, has := pre[o.key()]
	cur := absent
	if has {
		cur = c.id()
	}
	v, ok := o.ver()
	if typ == kcache.EventTypeDelete {
		if !has {
			return one(absent)
		}
		if !ok {
			return allowed{absent: true, cur: true} // U1 (malformed)
		}
		cv, _ := c.ver()
		if v < cv {
			return allowed{absent: true, cur: true} // U1 (stale delete)
		}
		return one(absent)
	}
	if !ok {
		return one(cur)
	}
	acc := F.Eval(o.pod())
	if !has {
		if acc {
			return one(o.id())
		}
		return one(absent)
	}
	cv, _ := c.ver()
	if v > cv {
		if acc {
			return one(o.id())
		}
		return one(absent)
	}
	return one(cur)
}

// modelSync returns, per key of pre ∪ list, the allowed outcomes under F.
func modelSync(pre cstate, list []mobj, F *kit.Term) map[string]allowed {
	out := map[string]allowed{}
	byKey := map[string][]mobj{}
	malformed := map[string]bool{}
	for _, e := range list {
		if _, ok := e.ver(); !ok {
			malformed[e.key()] = true
			continue
		}
		byKey[e.key()] = append(byKey[e.key()], e)
	}
	keys := map[string]bool{}
	for k := range pre {
		keys[k] = true
	}
	for _, e := range list {
		keys[e.key()] = true
	}
	for k := range keys {
		c, has := pre[k]
		es := byKey[k]
		switch {
		case len(es) == 0 && malformed[k]:
			out[k] = allowed{absent: true, keepIf(c, has, F): true} // U3
		case len(es) == 0:
			out[k] = one(absent)
		case len(es) == 1:
			e := es[0]
			ev, _ := e.ver()
			cv, _ := c.ver()
			if !has || ev > cv {
				if F.Eval(e.pod()) {
					out[k] = one(e.id())
				} else {
					out[k] = one(absent)
				}
			} else {
				out[k] = one(keepIf(c, has, F))
			}
		default: // U2
			var R []mobj
			cv, _ := c.ver()
			for _, e := range es {
				ev, _ := e.ver()
				if !has || ev > cv {
					R = append(R, e)
				}
			}
			if len(R) == 0 {
				out[k] = one(keepIf(c, has, F))
				break
			}
			M := -1 << 30
			for _, e := range R {
				if ev, _ := e.ver(); ev > M {
					M = ev
				}
			}
			a := allowed{}
			for _, e := range R {
				if ev, _ := e.ver(); ev == M && F.Eval(e.pod()) {
					a[e.id()] = true
				}
			}
			if len(a) == 0 {
				a[absent] = true
				a[keepIf(c, has, F)] = true
				for _, e := range R {
					if F.Eval(e.pod()) {
						a[e.id()] = true
					}
				}
			}
			out[k] = a
		}
	}
	return out
}

// cacheRig drives one real cache.
type cacheRig struct {
	c      *kcache.VerifCache
	cancel context.CancelFunc
	keys   []string // universe keys "ns/name"
}

func newCacheRig(F *kit.Term, keys []string) *cacheRig {
	ctx, cancel := context.WithCancel(context.Background())
	return &cacheRig{c: kcache.VerifNewCache(ctx, kit.NullLog{}, nil, F.Build()), cancel: cancel, keys: keys}
}

func (g *cacheRig) close() {
	g.cancel()
	<-g.c.Done()
}

// read returns the content seen through List and checks Get agrees.
func (g *cacheRig) read(r *Res, what string) (map[string]string, map[string]metav1.Object) {
	list, err := g.c.List()
	if err != nil {
		r.V("C01", "list-error", "%s: List: %v", what, err)
		return nil, nil
	}
	ids := map[string]string{}
	objs := map[string]metav1.Object{}
	for _, o := range list {
		k := kit.Key(o)
		if _, dup := ids[k]; dup {
			r.V("C01", "list-duplicate-key", "%s: List returned %s twice", what, k)
		}
		ids[k] = idOf(o)
		objs[k] = o
	}
	for _, k := range g.keys {
		p := strings.SplitN(k, "/", 2)
		o, err := g.c.Get(p[0], p[1])
		if err != nil {
			r.V("C01", "get-error", "%s: Get: %v", what, err)
			continue
		}
		want, has := ids[k]
		switch {
		case o == nil && has:
			r.V("C01", "get-list-disagree", "%s: Get(%s)=nil but List has %s", what, k, want)
		case o != nil && !has:
			r.V("C01", "get-list-disagree", "%s: Get(%s)=%s but List lacks it", what, k, idOf(o))
		case o != nil && idOf(o) != want:
			r.V("C01", "get-list-disagree", "%s: Get(%s)=%s List=%s", what, k, idOf(o), want)
		}
	}
	return ids, objs
}

// checkEvents applies the C02 rules: sequential replay of evts over pre gives
// post, well-formed at every step; silent when nothing changed per key; at
// most one event for keys occurring at most once in the input.
func checkEvents(r *Res, what string, pre, post map[string]string, evts []kcache.Event, occ map[string]int) {
	cur := map[string]string{}
	for k, v := range pre {
		cur[k] = v
	}
	per := map[string]int{}
	for i, e := range evts {
		o := e.Resource()
		k := kit.Key(o)
		per[k]++
		c, has := cur[k]
		switch e.Type() {
		case kcache.EventTypeCreate:
			if has {
				r.V("C02", "create-on-present", "%s: event %d create %s@%s but key present (%s)", what, i, k, idOf(o), c)
			}
			cur[k] = idOf(o)
		case kcache.EventTypeUpdate:
			if !has {
				r.V("C02", "update-on-absent", "%s: event %d update %s@%s but key absent", what, i, k, idOf(o))
			} else if kit.Atoi(o.GetResourceVersion()) <= kit.Atoi(strings.SplitN(c, "~", 2)[0]) {
				r.V("C02", "update-not-newer", "%s: event %d update %s@%s not newer than %s", what, i, k, idOf(o), c)
			}
			cur[k] = idOf(o)
		case kcache.EventTypeDelete:
			if !has {
				r.V("C02", "delete-on-absent", "%s: event %d delete %s but key absent", what, i, k)
			}
			delete(cur, k)
		default:
			r.V("C02", "bad-event-type", "%s: event %d has type %q", what, i, e.Type())
		}
	}
	// replay result == post
	if len(cur) != len(post) {
		r.V("C02", "replay-mismatch", "%s: replay of %d events over %v gives %v, cache has %v", what, len(evts), pre, cur, post)
	} else {
		for k, v := range post {
			if cur[k] != v {
				r.V("C02", "replay-mismatch", "%s: replay of %d events over %v gives %v, cache has %v", what, len(evts), pre, cur, post)
				break
			}
		}
	}
	for k, n := range per {
		pv, ph := pre[k]
		qv, qh := post[k]
		if ph == qh && pv == qv {
			r.V("C02", "event-on-noop", "%s: %d event(s) for %s although its entry did not change (%v)", what, n, k, pv)
		} else if n > 1 && occ[k] <= 1 {
			r.V("C02", "not-minimal", "%s: %d events for %s which occurs %d time(s) in the input", what, n, k, occ[k])
		}
	}
}

type e1op struct {
	kind string // update sync refilter
	typ  kcache.EventType
	o    mobj
	list []mobj
	f    int // filter index for refilter
}

func (o e1op) String() string {
	switch o.kind {
	case "update":
		return fmt.Sprintf("update(%s,%s)", o.typ, o.o)
	case "sync":
		return fmt.Sprintf("sync(%v)", o.list)
	}
	return fmt.Sprintf("refilter(%v,F%d)", o.list, o.f)
}

func podsOf(l []mobj) []metav1.Object {
	out := make([]metav1.Object, len(l))
	for i, m := range l {
		out[i] = m.pod()
	}
	return out
}

// applyChecked applies op to the real cache, whose content is known to be
// pre/F, and checks content (C01) and events (C02).  It returns the chosen
// post state, or nil if the content check failed.
func (g *cacheRig) applyChecked(r *Res, pre cstate, F *kit.Term, op e1op, filters []*kit.Term, stats map[string]int64) (cstate, *kit.Term) {
	what := fmt.Sprintf("state=%v filter=%s op=%s", pre, F, op)
	Hint(what)
	preIDs := map[string]string{}
	for k, v := range pre {
		preIDs[k] = v.id()
	}
	var evts []kcache.Event
	var err error
	var allow map[string]allowed
	occ := map[string]int{}
	nF := F
	switch op.kind {
	case "update":
		evts, err = g.c.Update(kcache.NewEvent(op.typ, op.o.pod()))
		allow = map[string]allowed{op.o.key(): modelUpdate(pre, op.typ, op.o, F)}
		occ[op.o.key()] = 1
	case "sync":
		evts, err = g.c.Sync(podsOf(op.list))
		allow = modelSync(pre, op.list, F)
	case "refilter":
		nF = filters[op.f]
		evts, err = g.c.Refilter(podsOf(op.list), nF.Build())
		allow = modelSync(pre, op.list, nF)
	}
	for _, e := range op.list {
		occ[e.key()]++
	}
	if err != nil {
		r.V("C01", "op-error", "%s: %v", what, err)
		return nil, nF
	}
	postIDs, postObjs := g.read(r, what)
	if postIDs == nil {
		return nil, nF
	}
	ok := true
	// every key: outcome allowed
	keys := map[string]bool{}
	for k := range preIDs {
		keys[k] = true
	}
	for k := range postIDs {
		keys[k] = true
	}
	for k := range allow {
		keys[k] = true
	}
	for k := range keys {
		got, has := postIDs[k]
		if !has {
			got = absent
		}
		a, mentioned := allow[k]
		if !mentioned {
			// untouched key must be unchanged
			want, ph := preIDs[k]
			if !ph {
				want = absent
			}
			a = one(want)
		}
		if !a[got] {
			ok = false
			var al []string
			for x := range a {
				al = append(al, x)
			}
			sort.Strings(al)
			r.V("C01", "content-mismatch", "%s: key %s is %s, reference allows %v", what, k, got, al)
		}
		if len(a) > 1 {
			stats["unspecified-zone"]++
		}
	}
	// invariant: everything cached is accepted by the current filter
	for k, o := range postObjs {
		if !nF.Eval(o) {
			ok = false
			r.V("C01", "cached-not-accepted", "%s: %s@%s cached but rejected by %s", what, k, idOf(o), nF)
		}
	}
	checkEvents(r, what, preIDs, postIDs, evts, occ)
	// statistics: which rule the op exercised
	if len(evts) > 0 {
		stats["ops-with-events"]++
		for _, e := range evts {
			stats["event-"+string(e.Type())]++
		}
	} else {
		stats["ops-silent"]++
		switch op.kind {
		case "update":
			c, has := pre[op.o.key()]
			_, wf := op.o.ver()
			switch {
			case !wf:
				stats["noop:malformed-version"]++
			case op.typ == kcache.EventTypeDelete && !has:
				stats["noop:delete-unknown"]++
			case !has:
				stats["noop:rejected-unknown"]++
			case has && op.o.rv == c.rv:
				stats["noop:redelivered"]++
			case has:
				stats["noop:stale"]++
			}
		default:
			stats["noop:unchanged-relist"]++
		}
	}
	// on a content mismatch the walk continues from what the cache really holds
	// (the violation is recorded; the events are still judged, so that C02 keeps
	// its coverage on a tree that breaks C01)
	_ = ok
	post := cstate{}
	for k, o := range postObjs {
		p := strings.SplitN(k, "/", 2)
		post[k] = mobj{p[0], p[1], o.GetResourceVersion(), o.GetLabels()["l"]}
	}
	return post, nF
}

// --- exhaustive universe -----------------------------------------------------

var e1Keys = []string{"ns/a", "ns/b"}
var e1Vers = []string{"0", "1", "2", "3", "4", "5"}
var e1BadVers = []string{"", "x", "-1"}
var e1Labs = []string{"x", "y"}

func e1Filters() []*kit.Term {
	return []*kit.Term{
		kit.TNull(),
		kit.TAll(),
		kit.TLabels(map[string]string{"l": "x"}),
		kit.TNSName(nsname.New("ns", "a")),
	}
}

type e1state struct {
	f int
	c cstate
}

func e1States() []e1state {
	fs := e1Filters()
	var out []e1state
	opts := func(fi int, key string) []*mobj {
		p := strings.SplitN(key, "/", 2)
		res := []*mobj{nil}
		for _, v := range e1Vers {
			for _, l := range e1Labs {
				m := mobj{p[0], p[1], v, l}
				if fs[fi].Eval(m.pod()) {
					mm := m
					res = append(res, &mm)
				}
			}
		}
		return res
	}
	for fi := range fs {
		for _, a := range opts(fi, e1Keys[0]) {
			for _, b := range opts(fi, e1Keys[1]) {
				c := cstate{}
				if a != nil {
					c[a.key()] = *a
				}
				if b != nil {
					c[b.key()] = *b
				}
				out = append(out, e1state{fi, c})
			}
		}
	}
	return out
}

func e1Entries() []mobj {
	var es []mobj
	for _, k := range e1Keys {
		p := strings.SplitN(k, "/", 2)
		for _, v := range append(append([]string{}, e1Vers...), e1BadVers...) {
			for _, l := range e1Labs {
				es = append(es, mobj{p[0], p[1], v, l})
			}
		}
	}
	return es
}

func e1Ops(maxLen int) []e1op {
	es := e1Entries()
	var ops []e1op
	for _, typ := range []kcache.EventType{kcache.EventTypeCreate, kcache.EventTypeUpdate, kcache.EventTypeDelete} {
		for _, e := range es {
			ops = append(ops, e1op{kind: "update", typ: typ, o: e})
		}
	}
	var lists [][]mobj
	lists = append(lists, nil)
	for _, a := range es {
		lists = append(lists, []mobj{a})
	}
	for _, a := range es {
		for _, b := range es {
			lists = append(lists, []mobj{a, b})
		}
	}
	if maxLen >= 3 {
		for _, a := range es {
			for _, b := range es {
				for _, c := range es {
					lists = append(lists, []mobj{a, b, c})
				}
			}
		}
	}
	for _, l := range lists {
		ops = append(ops, e1op{kind: "sync", list: l})
		for f := range e1Filters() {
			ops = append(ops, e1op{kind: "refilter", list: l, f: f})
		}
	}
	return ops
}

// establish puts the real cache into (st.c, filter st.f) through two checked
// operations: empty it under reject-all, then refilter with the state's list.
func (g *cacheRig) establish(r *Res, cur cstate, curF *kit.Term, st e1state, fs []*kit.Term, stats map[string]int64) bool {
	p1, f1 := g.applyChecked(r, cur, curF, e1op{kind: "refilter", list: nil, f: 1}, fs, stats)
	if p1 == nil || len(p1) != 0 {
		return false
	}
	var l []mobj
	for _, k := range e1Keys {
		if m, ok := st.c[k]; ok {
			l = append(l, m)
		}
	}
	p2, _ := g.applyChecked(r, p1, f1, e1op{kind: "refilter", list: l, f: st.f}, fs, stats)
	if p2 == nil {
		return false
	}
	if p2.String() != st.c.String() {
		r.V("C01", "state-not-established", "could not establish %v: got %v", st.c, p2)
		return false
	}
	return true
}

func e1ExhaustiveCase(si int, st e1state, maxLen int, stride, phase int) Case {
	id := fmt.Sprintf("E1/exh/s%d/len%d/%d.%d", si, maxLen, phase, stride)
	return Case{ID: id, Desc: map[string]interface{}{"state": st.c.String(), "filter": e1Filters()[st.f].String(), "max_list_len": maxLen},
		Bubble: true,
		Run: func(r *Res) {
			fs := e1Filters()
			ops := e1Ops(maxLen)
			g := newCacheRig(fs[0], e1Keys)
			defer g.close()
			stats := map[string]int64{}
			cur, curF := cstate{}, fs[0]
			n := int64(0)
			var sampleOps []string
			for oi, op := range ops {
				if maxLen >= 3 && (len(op.list) != 3 || oi%stride != phase) {
					continue
				}
				if !g.establish(r, cur, curF, st, fs, stats) {
					return
				}
				post, nF := g.applyChecked(r, st.c, fs[st.f], op, fs, stats)
				if post == nil {
					return
				}
				cur, curF = post, nF
				n++
				if len(sampleOps) < 2 && oi%977 == 5 {
					sampleOps = append(sampleOps, fmt.Sprintf("%v -> %v", op, post))
				}
			}
			r.Evals = n
			r.Count = n
			for k, v := range stats {
				r.Add(k, v)
			}
			r.Add("states", 1)
			r.Sample = map[string]interface{}{"state": st.c.String(), "filter": fs[st.f].String(), "ops": sampleOps}
		}}
}

// --- random walks over larger universes -------------------------------------

func e1WalkCase(seed uint64, wi int, steps int) Case {
	id := fmt.Sprintf("E1/walk/%d/%d", seed, wi)
	return Case{ID: id, Desc: map[string]interface{}{"walk": wi, "steps": steps}, Bubble: true,
		Run: func(r *Res) {
			rng := kit.NewRng(kit.Mix(seed, uint64(wi)+77))
			nk := 4 + rng.Intn(3)
			// every 8th walk is over a LARGE cache (mass deletions, few survivors, stale
			// survivors among them); every walk draws its versions around a base that may
			// lie beyond 32 and 53 bits (resource versions are 64-bit etcd revisions)
			big := wi%8 == 7
			if big {
				nk = 1100 + rng.Intn(900)
				steps = 14
			}
			vbase := []int{0, 0, 0, 1<<31 - 25, 1<<32 - 25, 1 << 53, 1 << 62}[rng.Intn(7)]
			var keys []string
			for i := 0; i < nk; i++ {
				keys = append(keys, fmt.Sprintf("n%d/k%d", i%2, i))
			}
			if !big && wi%3 == 1 {
				// cluster-scoped objects have no namespace
				keys[0], keys[1] = "/k0", "/k1"
			}
			labs := []string{"", "x", "y", "z"}
			// filter family for the walk (index 1 must be reject-all for nothing here;
			// walks do not use establish)
			isOdd := func(o metav1.Object) bool { return kit.Atoi(o.GetResourceVersion())%2 == 1 }
			fs := []*kit.Term{
				kit.TNull(), kit.TAll(),
				kit.TLabels(map[string]string{"l": "x"}),
				kit.TNot(kit.TLabels(map[string]string{"l": "x"})),
				kit.TNSName(nsname.New("n0", "")),
				kit.TOr(kit.TLabels(map[string]string{"l": "y"}), kit.TNSName(nsname.New("", "k1"), nsname.New("n1", "k3"))),
				kit.TAnd(kit.TNSName(nsname.New("n1", "")), kit.TNot(kit.TLabels(map[string]string{"l": "z"}))),
				kit.TFN("odd-version", isOdd),
				kit.TAnd(kit.TFN("odd-version", isOdd), kit.TLabels(map[string]string{"l": "x"})),
				kit.TLSel(&metav1.LabelSelector{MatchExpressions: []metav1.LabelSelectorRequirement{{Key: "l", Operator: metav1.LabelSelectorOpIn, Values: []string{"x", "z"}}}}),
			}
			fi := rng.Intn(len(fs))
			g := newCacheRig(fs[fi], keys)
			defer g.close()
			cur, curF := cstate{}, fs[fi]
			stats := map[string]int64{}
			maxv := 50
			genObj := func(stale int) mobj {
				k := keys[rng.Intn(len(keys))]
				p := strings.SplitN(k, "/", 2)
				var rv string
				switch x := rng.Intn(100); {
				case x < 4:
					rv = []string{"", "x", "-1", "1.5", " 3"}[rng.Intn(5)]
				case x < 4+stale:
					if c, ok := cur[k]; ok { // at or below the cached version
						cv, _ := c.ver()
						rv = fmt.Sprint(cv - rng.Intn(3))
					} else {
						rv = fmt.Sprint(vbase + rng.Intn(3))
					}
				default:
					rv = fmt.Sprint(vbase + rng.Intn(maxv))
				}
				return mobj{p[0], p[1], rv, labs[rng.Intn(len(labs))]}
			}
			var trace []string
			for s := 0; s < steps; s++ {
				var op e1op
				switch x := rng.Intn(100); {
				case x < 55:
					typ := []kcache.EventType{kcache.EventTypeCreate, kcache.EventTypeUpdate, kcache.EventTypeDelete, kcache.EventTypeUpdate}[rng.Intn(4)]
					op = e1op{kind: "update", typ: typ, o: genObj(30)}
				default:
					n := rng.Intn(7)
					dupHeavy := rng.Chance(30)
					var l []mobj
					if big {
						switch y := rng.Intn(10); {
						case y < 4 || len(cur) < nk/3:
							// (re)populate: most keys, fresh versions
							for _, k := range keys {
								if rng.Chance(90) {
									p := strings.SplitN(k, "/", 2)
									l = append(l, mobj{p[0], p[1], fmt.Sprint(vbase + 10 + s), labs[rng.Intn(len(labs))]})
								}
							}
							n = 0
						case y < 8:
							// mass deletion: 1-6% of the cached keys survive, a third of them listed at
							// or below their cached version
							for k, c := range cur {
								if rng.Chance(4) {
									cv, _ := c.ver()
									p := strings.SplitN(k, "/", 2)
									v := cv + 1 + rng.Intn(3)
									if rng.Chance(33) {
										v = cv - rng.Intn(3)
									}
									l = append(l, mobj{p[0], p[1], fmt.Sprint(v), labs[rng.Intn(len(labs))]})
								}
							}
							n = rng.Intn(3)
						}
					}
					for i := 0; i < n; i++ {
						o := genObj(25)
						if dupHeavy && len(l) > 0 && rng.Chance(50) {
							o.ns, o.name = l[rng.Intn(len(l))].ns, l[rng.Intn(len(l))].name
							// keep ns/name consistent with one entry
							e := l[rng.Intn(len(l))]
							o.ns, o.name = e.ns, e.name
						}
						l = append(l, o)
					}
					if rng.Chance(20) { // relist of exactly the current content
						l = nil
						for _, m := range cur {
							l = append(l, m)
						}
					}
					if x < 80 {
						op = e1op{kind: "sync", list: l}
					} else {
						op = e1op{kind: "refilter", list: l, f: rng.Intn(len(fs))}
					}
				}
				post, nF := g.applyChecked(r, cur, curF, op, fs, stats)
				if len(trace) < 6 {
					trace = append(trace, op.String())
				}
				if post == nil {
					return
				}
				r.Key(fmt.Sprintf("%016x", kit.HashStr(fmt.Sprintf("%s|%s|%s", cur, curF, op))))
				cur, curF = post, nF
			}
			r.Evals = int64(steps)
			for k, v := range stats {
				r.Add(k, v)
			}
			r.Add("walks", 1)
			r.Sample = map[string]interface{}{"keys": keys, "first_ops": trace, "final": cur.String()}
		}}
}

// e1ReaderCase: what a reader sees WHILE a sync/refilter is being applied.  The
// cache's filter (a harness collaborator) takes virtual time for every object,
// so the operation is in progress for a while; a second goroutine reads all
// along.  Every read must be the content before the operation or the content
// after it (both are reference states); anything in between is none.
func e1ReaderCase(seed uint64, n int) Case {
	id := fmt.Sprintf("E1/reader-during-sync/%d/%d", seed, n)
	return Case{ID: id, Desc: map[string]interface{}{"seed": seed, "n": n, "what": "reads while a sync/refilter is in progress (slow filter)"}, Bubble: true, Run: func(r *Res) {
		rng := kit.NewRng(kit.Mix(seed, uint64(n)+177))
		rounds := 12
		for round := 0; round < rounds && !r.Failed(); round++ {
			var slow atomic.Bool
			var cancelAt, seenObjs atomic.Int64
			var cancel context.CancelFunc
			accept := func(o metav1.Object) bool {
				if slow.Load() {
					time.Sleep(20 * time.Microsecond)
					if n := cancelAt.Load(); n > 0 && seenObjs.Add(1) == n {
						cancel()
					}
				}
				return o.GetLabels()["l"] != "z"
			}
			F := kit.TFN("slow(l!=z)", accept)
			var ctx context.Context
			ctx, cancel = context.WithCancel(context.Background())
			c := kcache.VerifNewCache(ctx, kit.NullLog{}, nil, F.Build())
			mk := func(ver int) []metav1.Object {
				var l []metav1.Object
				for i := 0; i < 12; i++ {
					if rng.Chance(70) {
						l = append(l, kit.Pod("ns", fmt.Sprintf("k%02d", i), fmt.Sprint(ver*100+i), map[string]string{"l": []string{"x", "y", "z"}[rng.Intn(3)]}))
					}
				}
				return l
			}
			if _, err := c.Sync(mk(1)); err != nil {
				r.V("C01", "op-error", "%v", err)
				cancel()
				return
			}
			pre, _ := cacheSnap(c.Reader())
			var reads []kit.Snap
			var mu sync.Mutex
			stop := make(chan struct{})
			rdone := make(chan struct{})
			go func() {
				defer close(rdone)
				for {
					select {
					case <-stop:
						return
					case <-time.After(15 * time.Microsecond):
					}
					l, err := c.List()
					if err != nil {
						return
					}
					mu.Lock()
					reads = append(reads, kit.SnapOf(l))
					mu.Unlock()
				}
			}()
			slow.Store(true)
			var err error
			next := mk(2)
			cancelMid := round%4 == 3
			if cancelMid {
				// the context ends while the sync is being applied (the filter cancels it at
				// its 4th object): from then on reads may be refused, but one that is
				// answered is still the content before or after a COMPLETE sync
				cancelAt.Store(4)
			}
			if round%3 == 2 && !cancelMid {
				_, err = c.Refilter(next, kit.TFN("slow(l!=z)'", accept).Build())
			} else {
				_, err = c.Sync(next)
			}
			slow.Store(false)
			if cancelMid {
				time.Sleep(200 * time.Microsecond)
			}
			close(stop)
			<-rdone
			if err != nil && !cancelMid {
				r.V("C01", "op-error", "%v", err)
				cancel()
				return
			}
			post, perr := cacheSnap(c.Reader())
			if cancelMid || perr != nil {
				// the cache is gone: compute the content after a complete sync independently
				post = kit.Snap{}
				for _, o := range next {
					if o.GetLabels()["l"] != "z" {
						post[kit.Key(o)] = o.GetResourceVersion()
					}
				}
				r.Add("cancelled-mid-sync-rounds", 1)
			}
			mu.Lock()
			for i, s := range reads {
				r.Add("reads-during-operation", 1)
				if !s.Equal(pre) && !s.Equal(post) {
					r.V("C01", "content-mismatch", "read #%d made while a %d-object sync/refilter was being applied returned %v: neither the content before it %v nor the content after it %v (a half-applied operation is no reference state)", i, len(post), s, pre, post)
					break
				}
			}
			mu.Unlock()
			cancel()
			<-c.Done()
		}
		r.Key(id)
		r.Add("reader-during-sync-rounds", int64(rounds))
	}}
}

// e1LongLifeCase: ONE cache through tens of thousands of synchronisations (more
// than a 16-bit counter holds).  At intervals, and densely around the powers
// of two, an object learnt through an event is left out of the next list and
// must be gone afterwards; the content is compared with the list every time.
func e1LongLifeCase(seed uint64, n int) Case {
	id := fmt.Sprintf("E1/long-lived-cache/%d/%d", seed, n)
	total := 66200
	return Case{ID: id, Desc: map[string]interface{}{"syncs": total, "what": "one cache, > 65536 synchronisations"}, Bubble: false, Run: func(r *Res) {
		ctx, cancel := context.WithCancel(context.Background())
		c := kcache.VerifNewCache(ctx, kit.NullLog{}, nil, kit.TNull().Build())
		defer func() { cancel(); <-c.Done() }()
		lists := [][]metav1.Object{
			{kit.Pod("ns", "a", "1", nil), kit.Pod("ns", "b", "2", nil)},
			{kit.Pod("ns", "a", "1", nil)},
		}
		refilter := n%2 == 1
		checked := 0
		for i := 1; i <= total; i++ {
			probe := i%4099 == 0 || (i > 65520 && i < 65560) || (i > 32760 && i < 32775) || i < 5
			if probe {
				if _, err := c.Update(kcache.NewEvent(kcache.EventTypeCreate, kit.Pod("ns", "ghost", fmt.Sprint(100+i), nil))); err != nil {
					r.V("C01", "op-error", "%v", err)
					return
				}
			}
			l := lists[i%2]
			var err error
			if refilter && i%3 == 0 {
				_, err = c.Refilter(l, kit.TNull().Build())
			} else {
				_, err = c.Sync(l)
			}
			if err != nil {
				r.V("C01", "op-error", "%v", err)
				return
			}
			if probe {
				checked++
				got, _ := cacheSnap(c.Reader())
				if want := kit.SnapOf(l); !got.Equal(want) {
					r.V("C01", "content-mismatch", "synchronisation #%d of one cache: the list was %v, the cache now holds %v (an object learnt through an event and absent from the list must be gone)", i, want, got)
					return
				}
			}
		}
		r.Evals = int64(total)
		r.Add("long-lived-syncs", int64(total))
		r.Add("long-lived-probes", int64(checked))
		r.Key(id)
	}}
}

// e1ConcurrentReadersCase: ONE writer applies a sequence of operations whose
// reference states S0, S1, ... are known (single writer, fresh versions), while
// several goroutines call List() and Get() flat out (real time, no bubble).
// A read that began after operation i had returned and ended before operation j
// was started must return one of S_i .. S_j-1 ... S_j (the content after a
// prefix of the sequence that is compatible with real-time order); the writer's
// own read right after its own operation must return exactly S_i.  What List/Get
// return is prescribed by the sequence applied so far for EVERY caller, however
// many of them ask at once.
func e1ConcurrentReadersCase(seed uint64, n int) Case {
	id := fmt.Sprintf("E1/concurrent-readers/%d/%d", seed, n)
	return Case{ID: id, Desc: map[string]interface{}{"seed": seed, "n": n, "what": "List/Get from several goroutines at once against a single writer's reference states (real time)"}, Bubble: false, Run: func(r *Res) {
		rng := kit.NewRng(kit.Mix(seed, uint64(n)+1990))
		old := runtime.GOMAXPROCS([]int{4, 8, 16}[rng.Intn(3)])
		defer runtime.GOMAXPROCS(old)
		F := kit.TFN("l!=z", func(o metav1.Object) bool { return o.GetLabels()["l"] != "z" })
		ctx, cancel := context.WithCancel(context.Background())
		c := kcache.VerifNewCache(ctx, kit.NullLog{}, nil, F.Build())
		defer func() { cancel(); <-c.Done() }()
		const nops = 1500
		names := []string{"k0", "k1", "k2", "k3", "k4", "k5"}
		states := make([]kit.Snap, 1, nops+1) // states[i] = content after i operations
		states[0] = kit.Snap{}
		var smu sync.RWMutex
		var started, completed atomic.Int64
		var stop atomic.Bool
		var bmu sync.Mutex
		var bads []string
		var nreads atomic.Int64
		var wg sync.WaitGroup
		readers := 3 + rng.Intn(6)
		for k := 0; k < readers; k++ {
			wg.Add(1)
			kk := k
			go func() {
				defer wg.Done()
				for i := 0; !stop.Load(); i++ {
					lo := completed.Load()
					var got kit.Snap
					var key string
					isGet := (i+kk)%3 == 0
					if isGet {
						key = names[(i+kk)%len(names)]
						o, err := c.Get("ns", key)
						if err != nil {
							return
						}
						got = kit.Snap{}
						if o != nil {
							got["ns/"+key] = o.GetResourceVersion()
						}
					} else {
						l, err := c.List()
						if err != nil {
							return
						}
						got = kit.SnapOf(l)
					}
					hi := started.Load()
					nreads.Add(1)
					ok := false
					smu.RLock()
					if int(hi) >= len(states) {
						hi = int64(len(states) - 1)
					}
					for j := lo; j <= hi && !ok; j++ {
						st := states[j]
						if isGet {
							v, has := st["ns/"+key]
							gv, ghas := got["ns/"+key]
							ok = has == ghas && v == gv
						} else {
							ok = st.Equal(got)
						}
					}
					smu.RUnlock()
					if !ok {
						bmu.Lock()
						if len(bads) < 3 {
							what := "List()"
							if isGet {
								what = "Get(" + key + ")"
							}
							bads = append(bads, fmt.Sprintf("reader %d: %s began after operation #%d had returned and ended before operation #%d was started, and returned %v: the content after none of these prefixes", kk, what, lo, hi+1, got))
						}
						bmu.Unlock()
					}
				}
			}()
		}
		// a SECOND cache with its own writer works at the same time: what an operation
		// returns are the events of that operation on that cache, whatever other caches
		// of the process are doing (C02: events are an exact delta)
		ctx2, cancel2 := context.WithCancel(context.Background())
		c2 := kcache.VerifNewCache(ctx2, kit.NullLog{}, nil, kit.TNull().Build())
		defer func() { cancel2(); <-c2.Done() }()
		var foreign []string
		wg.Add(1)
		go func() {
			defer wg.Done()
			for i := 1; !stop.Load(); i++ {
				nm := fmt.Sprintf("o%d", i%4)
				o := kit.Pod("other", nm, strconv.Itoa(i), nil)
				typ := kcache.EventTypeUpdate
				if i <= 4 {
					typ = kcache.EventTypeCreate
				}
				evts, err := c2.Update(kcache.NewEvent(typ, o))
				if err != nil {
					return
				}
				nreads.Add(1)
				if len(evts) != 1 || evts[0].Resource().GetNamespace() != "other" || evts[0].Resource().GetName() != nm || evts[0].Resource().GetResourceVersion() != strconv.Itoa(i) {
					bmu.Lock()
					if len(foreign) < 3 {
						foreign = append(foreign, fmt.Sprintf("second cache: update of other/%s@%d returned %s", nm, i, evSummary(evts)))
					}
					bmu.Unlock()
				}
			}
		}()
		checkOwn := func(i int, what string, evts []kcache.Event, want int) {
			r.Add("batches-checked-with-another-cache-emitting", 1)
			bad := want >= 0 && len(evts) != want
			for _, e := range evts {
				if e.Resource().GetNamespace() != "ns" {
					bad = true
				}
			}
			if bad {
				r.V("C02", "replay-mismatch", "operation #%d (%s) on one cache, while another cache of the process was being updated, returned %s (%d event(s) expected, all about namespace ns)", i, what, evSummary(evts), want)
			}
		}
		cur := kit.Snap{}
		ver := 0
		for i := 1; i <= nops && !r.Failed(); i++ {
			next := cur.Clone()
			var err error
			var evts []kcache.Event
			// the state after the operation is published BEFORE it is started (a reader
			// may already see it while the call is in progress)
			switch x := rng.Intn(10); {
			case x < 6:
				ver++
				nm := names[rng.Intn(len(names))]
				lab := []string{"x", "y", "z"}[rng.Intn(3)]
				o := kit.Pod("ns", nm, strconv.Itoa(ver), map[string]string{"l": lab})
				if lab == "z" {
					delete(next, "ns/"+nm)
				} else {
					next["ns/"+nm] = strconv.Itoa(ver)
				}
				smu.Lock()
				states = append(states, next)
				smu.Unlock()
				started.Store(int64(i))
				typ := kcache.EventTypeUpdate
				if _, has := cur["ns/"+nm]; !has {
					typ = kcache.EventTypeCreate
				}
				evts, err = c.Update(kcache.NewEvent(typ, o))
				if err == nil {
					_, had := cur["ns/"+nm]
					want := 1
					if lab == "z" && !had {
						want = 0
					}
					checkOwn(i, "update "+nm+"~"+lab, evts, want)
				}
			case x < 8:
				ver++
				nm := names[rng.Intn(len(names))]
				delete(next, "ns/"+nm)
				smu.Lock()
				states = append(states, next)
				smu.Unlock()
				started.Store(int64(i))
				evts, err = c.Update(kcache.NewEvent(kcache.EventTypeDelete, kit.Pod("ns", nm, strconv.Itoa(ver), nil)))
				if err == nil {
					want := 0
					if _, had := cur["ns/"+nm]; had {
						want = 1
					}
					checkOwn(i, "delete "+nm, evts, want)
				}
			default:
				var l []metav1.Object
				next = kit.Snap{}
				for _, nm := range names {
					if rng.Chance(60) {
						ver++
						lab := []string{"x", "y", "z"}[rng.Intn(3)]
						l = append(l, kit.Pod("ns", nm, strconv.Itoa(ver), map[string]string{"l": lab}))
						if lab != "z" {
							next["ns/"+nm] = strconv.Itoa(ver)
						}
					}
				}
				smu.Lock()
				states = append(states, next)
				smu.Unlock()
				started.Store(int64(i))
				_, err = c.Sync(l)
			}
			if err != nil {
				r.V("C01", "op-error", "%v", err)
				break
			}
			completed.Store(int64(i))
			cur = next
			// the writer's own read: exactly the content after its i operations
			if i%2 == 0 {
				l, lerr := c.List()
				if lerr != nil {
					r.V("C01", "list-error", "%v", lerr)
					break
				}
				r.Add("writer-reads-after-own-write", 1)
				if got := kit.SnapOf(l); !got.Equal(cur) {
					r.V("C01", "content-mismatch", "with %d other goroutines reading, the writer's List() right after its operation #%d returned %v; the sequence applied so far prescribes %v (a reply computed before the operation, i.e. for someone else's earlier request)", readers, i, got, cur)
					break
				}
			}
		}
		stop.Store(true)
		wg.Wait()
		for _, b := range bads {
			r.V("C01", "content-mismatch", "%s", b)
		}
		for _, b := range foreign {
			r.V("C02", "replay-mismatch", "%s", b)
		}
		r.Add("concurrent-reads", nreads.Load())
		r.Add("concurrent-reader-cases", 1)
		r.Key(id)
		r.Sample = map[string]interface{}{"readers": readers, "operations": nops, "reads": nreads.Load()}
	}}
}

func init() {
	register("E1", func(tier string, seed uint64) []Case {
		var cases []Case
		sts := e1States()
		for si, st := range sts {
			cases = append(cases, e1ExhaustiveCase(si, st, 2, 1, 0))
		}
		if tier == "thorough" {
			// all lists of length 3, for a PRNG-chosen quarter of the states,
			// each state taking a PRNG-chosen 1/8 residue class of the lists
			// all lists of length 3 from EVERY state, each state taking a PRNG-chosen
			// residue class (1 in 4) of the 233 280 (list, target filter) combinations
			rng := kit.NewRng(seed ^ 0xE1)
			for si, st := range sts {
				cases = append(cases, e1ExhaustiveCase(si, st, 3, 4, rng.Intn(4)))
			}
		}
		nw := tierPick(tier, 160, 12000)
		for i := 0; i < nw; i++ {
			cases = append(cases, e1WalkCase(seed, i, 200))
		}
		for i := 0; i < tierPick(tier, 16, 800); i++ {
			cases = append(cases, e1ReaderCase(seed, i))
		}
		for i := 0; i < tierPick(tier, 2, 16); i++ {
			cases = append(cases, e1LongLifeCase(seed, i))
		}
		for i := 0; i < tierPick(tier, 12, 400); i++ {
			cases = append(cases, e1ConcurrentReadersCase(seed, i))
		}
		return cases
	})
}
