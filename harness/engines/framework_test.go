package engines

import (
	"bufio"
	"encoding/json"
	"fmt"
	"os"
	"sort"
	"strconv"
	"strings"
	"sync"
	"sync/atomic"
	"syscall"
	"testing"
	"testing/synctest"
	"time"

	"verifharness/kit"
)

// Viol is one observed violation.
type Viol struct {
	Prop   string `json:"prop"`
	Class  string `json:"class"`
	Detail string `json:"detail"`
}

// Res collects what one case observed.
type Res struct {
	mu           sync.Mutex
	Viol         []Viol
	Obs          map[string]int64
	Sets         map[string]map[string]bool
	Keys         []string // distinct non-trivial keys contributed by this case
	Count        int64    // distinct-by-construction non-trivial items
	Evals        int64    // evaluations (defaults to 1)
	Inconclusive []string
	Sample       interface{}
}

func newRes() *Res {
	return &Res{Obs: map[string]int64{}, Sets: map[string]map[string]bool{}}
}

func (r *Res) V(prop, class, format string, a ...interface{}) {
	r.mu.Lock()
	defer r.mu.Unlock()
	// cap per class, so that a frequent (e.g. known) class cannot crowd out others
	same := 0
	for _, v := range r.Viol {
		if v.Prop == prop && v.Class == class {
			same++
		}
	}
	if same < 4 && len(r.Viol) < 200 {
		d := fmt.Sprintf(format, a...)
		if len(d) > 6000 {
			d = d[:6000] + "...(truncated)"
		}
		r.Viol = append(r.Viol, Viol{prop, class, d})
	}
}
func (r *Res) Add(k string, n int64) {
	r.mu.Lock()
	r.Obs[k] += n
	r.mu.Unlock()
}
func (r *Res) Max(k string, n int64) {
	r.mu.Lock()
	if n > r.Obs["max:"+k] {
		r.Obs["max:"+k] = n
	}
	r.mu.Unlock()
}
func (r *Res) Set(name, v string) {
	r.mu.Lock()
	m := r.Sets[name]
	if m == nil {
		m = map[string]bool{}
		r.Sets[name] = m
	}
	if len(m) < 4000 {
		m[v] = true
	}
	r.mu.Unlock()
}
func (r *Res) Key(k string) {
	r.mu.Lock()
	r.Keys = append(r.Keys, k)
	r.mu.Unlock()
}
func (r *Res) Inc(reason string) {
	r.mu.Lock()
	r.Inconclusive = append(r.Inconclusive, reason)
	r.mu.Unlock()
}
func (r *Res) Failed() bool {
	r.mu.Lock()
	defer r.mu.Unlock()
	return len(r.Viol) > 0
}

// Case is one unit of work of an engine.
type Case struct {
	ID     string
	Desc   interface{}
	Bubble bool
	Run    func(r *Res)
}

type engineFn func(tier string, seed uint64) []Case

var registry = map[string]engineFn{}

func register(name string, fn engineFn) { registry[name] = fn }

// hint file: the last risky operation started, survives a crash.
var hintFile *os.File

func Hint(s string) {
	if hintFile == nil {
		return
	}
	b := make([]byte, 512)
	for i := range b {
		b[i] = ' '
	}
	copy(b, s)
	b[511] = '\n'
	hintFile.WriteAt(b, 0)
}

type rec struct {
	T            string                 `json:"t"`
	ID           string                 `json:"id,omitempty"`
	Idx          int                    `json:"idx"`
	Desc         interface{}            `json:"desc,omitempty"`
	Viol         []Viol                 `json:"viol,omitempty"`
	Obs          map[string]int64       `json:"obs,omitempty"`
	Sets         map[string][]string    `json:"sets,omitempty"`
	Keys         []string               `json:"keys,omitempty"`
	Count        int64                  `json:"count,omitempty"`
	Evals        int64                  `json:"evals,omitempty"`
	Inconclusive []string               `json:"inconclusive,omitempty"`
	Sample       interface{}            `json:"sample,omitempty"`
	Panic        string                 `json:"panic,omitempty"`
	Extra        map[string]interface{} `json:"extra,omitempty"`
	Ms           int64                  `json:"ms,omitempty"`
}

// Stall watchdog (real time, outside every bubble).  A synctest bubble whose
// clock cannot advance burns no CPU and never ends: that happens when a
// goroutine sits in a virtual sleep while another one is blocked on a
// sync.Mutex (not a durable block), e.g. when the library under test guards
// its state with a mutex and the harness injects a virtual delay into a
// collaborator called under it.  The watchdog ends the process with a
// goroutine dump; the driver records the case as INCONCLUSIVE (never as a
// violation: the dump cannot tell a library hang from this artefact).
var (
	stallCase  atomic.Value // string
	stallStart atomic.Int64 // unix nanos, 0 = no case running
)

func cpuSeconds() float64 {
	var ru syscall.Rusage
	if syscall.Getrusage(syscall.RUSAGE_SELF, &ru) != nil {
		return 0
	}
	return float64(ru.Utime.Sec+ru.Stime.Sec) + float64(ru.Utime.Usec+ru.Stime.Usec)/1e6
}

func stallWatchdog(idleAfter, hard time.Duration) {
	type sample struct {
		at  time.Time
		cpu float64
	}
	var hist []sample
	for {
		time.Sleep(time.Second)
		now := time.Now()
		hist = append(hist, sample{now, cpuSeconds()})
		if len(hist) > 61 {
			hist = hist[1:]
		}
		st := stallStart.Load()
		if st == 0 {
			continue
		}
		el := now.Sub(time.Unix(0, st))
		idle := len(hist) == 61 && hist[60].cpu-hist[0].cpu < 0.2
		if (el > idleAfter && idle) || el > hard {
			id, _ := stallCase.Load().(string)
			fmt.Fprintf(os.Stderr, "\nVERIF-STALL case=%s elapsed=%s cpu_last_60s=%.2fs\n", id, el.Round(time.Second), hist[len(hist)-1].cpu-hist[0].cpu)
			fmt.Fprintln(os.Stderr, kit.DumpAll())
			os.Exit(3)
		}
	}
}

func runCase(t *testing.T, c Case) (res *Res, panicText string) {
	res = newRes()
	kit.TakeCores()
	defer func() {
		for _, core := range kit.TakeCores() {
			if n := core.Seq(); n > 0 {
				res.Set("signatures", strconv.FormatUint(core.Signature(), 16))
				res.Add("perturbation-points-executed", int64(n))
			}
		}
	}()
	defer func() {
		if p := recover(); p != nil {
			panicText = fmt.Sprint(p)
			if strings.Contains(panicText, "deadlock") {
				// the goroutines left behind are still parked: show where
				var b strings.Builder
				n := 0
				lib := false
				for _, g := range strings.Split(kit.DumpAll(), "\n\n") {
					if strings.Contains(g, "(durable)") && strings.Contains(g, "synctest bubble") && !strings.Contains(g, "synctest.Run") && !strings.Contains(g, "testingSynctestTest") {
						if strings.Contains(g, "github.com/boz/kcache") || strings.Contains(g, "github.com/boz/go-lifecycle") {
							lib = true
						}
					}
					if strings.Contains(g, "(durable)") && strings.Contains(g, "synctest bubble") && !strings.Contains(g, "synctest.Run") && n < 6 {
						lines := strings.Split(g, "\n")
						if len(lines) > 9 {
							lines = lines[:9]
						}
						b.WriteString(strings.Join(lines, "\n") + "\n\n")
						n++
					}
				}
				if lib {
					panicText += "\nLIBRARY-GOROUTINES-LEFT"
				} else {
					panicText += "\nHARNESS-GOROUTINES-ONLY"
				}
				panicText += "\nblocked goroutines left behind:\n" + b.String()
			}
		}
	}()
	if c.Bubble {
		synctest.Test(t, func(t *testing.T) { c.Run(res) })
	} else {
		c.Run(res)
	}
	return
}

func TestEngine(t *testing.T) {
	name := os.Getenv("VERIF_ENGINE")
	if name == "" {
		t.Skip("VERIF_ENGINE not set")
	}
	fn := registry[name]
	if fn == nil {
		t.Fatalf("unknown engine %q", name)
	}
	tier := os.Getenv("VERIF_TIER")
	if tier == "" {
		tier = "quick"
	}
	seed, _ := strconv.ParseUint(os.Getenv("VERIF_SEED"), 10, 64)
	bi, bn := 0, 1
	if b := os.Getenv("VERIF_BATCH"); b != "" {
		fmt.Sscanf(b, "%d/%d", &bi, &bn)
	}
	skip, _ := strconv.Atoi(os.Getenv("VERIF_SKIP"))
	replayID := os.Getenv("VERIF_REPLAY_ID")
	repeat := 1
	if v := os.Getenv("VERIF_REPEAT"); v != "" {
		repeat, _ = strconv.Atoi(v)
	}

	out := os.Stdout
	if p := os.Getenv("VERIF_OUT"); p != "" {
		f, err := os.OpenFile(p, os.O_CREATE|os.O_WRONLY|os.O_APPEND, 0644)
		if err != nil {
			t.Fatal(err)
		}
		defer f.Close()
		out = f
		hf, err := os.OpenFile(p+".hint", os.O_CREATE|os.O_WRONLY|os.O_TRUNC, 0644)
		if err == nil {
			hintFile = hf
			defer hf.Close()
		}
	}
	w := bufio.NewWriter(out)
	emit := func(r rec) {
		b, err := json.Marshal(r)
		if err != nil {
			b, _ = json.Marshal(rec{T: "error", ID: r.ID, Panic: "marshal: " + err.Error()})
		}
		w.Write(b)
		w.WriteByte('\n')
		w.Flush()
	}

	all := fn(tier, seed)
	if pf := os.Getenv("VERIF_CASE_PREFIX"); pf != "" {
		var keep []Case
		for _, c := range all {
			for _, p := range strings.Split(pf, ",") {
				if strings.HasPrefix(c.ID, p) {
					keep = append(keep, c)
					break
				}
			}
		}
		all = keep
	}
	var mine []Case
	for i, c := range all {
		if replayID != "" {
			if c.ID == replayID {
				mine = append(mine, c)
			}
			continue
		}
		if i%bn == bi {
			mine = append(mine, c)
		}
	}
	idleAfter, hard := 120*time.Second, 45*time.Minute
	if v, err := strconv.Atoi(os.Getenv("VERIF_STALL_S")); err == nil && v > 0 {
		idleAfter = time.Duration(v) * time.Second
	}
	go stallWatchdog(idleAfter, hard)
	emit(rec{T: "batch-start", Idx: len(mine), Extra: map[string]interface{}{"total": len(all), "engine": name, "tier": tier, "seed": seed}})
	for rep := 0; rep < repeat; rep++ {
		for i, c := range mine {
			if i < skip {
				continue
			}
			emit(rec{T: "start", ID: c.ID, Idx: i, Desc: c.Desc})
			Hint("")
			stallCase.Store(c.ID)
			t0 := time.Now()
			stallStart.Store(t0.UnixNano())
			res, ptxt := runCase(t, c)
			stallStart.Store(0)
			r := rec{T: "end", ID: c.ID, Idx: i, Ms: time.Since(t0).Milliseconds(), Viol: res.Viol, Obs: res.Obs, Keys: res.Keys, Count: res.Count,
				Evals: res.Evals, Inconclusive: res.Inconclusive, Sample: res.Sample, Panic: ptxt}
			if r.Evals == 0 {
				r.Evals = 1
			}
			if len(res.Sets) > 0 {
				r.Sets = map[string][]string{}
				for k, m := range res.Sets {
					var l []string
					for v := range m {
						l = append(l, v)
					}
					sort.Strings(l)
					r.Sets[k] = l
				}
			}
			emit(r)
		}
	}
	emit(rec{T: "batch-end"})
}

// helpers shared by engines --------------------------------------------------

func tierPick(tier string, quick, thorough int) int {
	if strings.HasPrefix(tier, "t") {
		return thorough
	}
	return quick
}
