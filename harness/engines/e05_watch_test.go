package engines

// E5: watch continuity across reconnects with relists disabled (C04), and the
// "watch failures are never fatal" half of C14.

import (
	"context"
	"fmt"
	apierrors "k8s.io/apimachinery/pkg/api/errors"
	metav1 "k8s.io/apimachinery/pkg/apis/meta/v1"
	"strconv"
	"sync/atomic"
	"time"

	"github.com/boz/kcache"

	"verifharness/kit"
)

type e5desc struct {
	Hist   uint64 `json:"history_seed"`
	Pos    int    `json:"fault_position"`
	Kind   string `json:"fault_kind"`
	Speed  string `json:"slow_actor"`
	Filter string `json:"filter"`
	Race   bool   `json:"race_mode"`
}

var e5Kinds = []string{"close", "err1", "err2", "err3", "status", "bookmark", "unknown", "nilobj", "burst1-close", "burst10-close", "burst60-close", "close-twice", "slow-connect", "dup", "status-close", "flap", "burst10-bookmark-close", "burst60-bookmark-close", "err-timeout", "err-canceled", "err-401", "err-410", "err-429", "err-503"}
var e5Speeds = []string{"", "controller|update event", "watcher|session event", "watcher|session done", "watch-session|"}

func e5Case(hseed uint64, pos int, kind, speed string, race bool) Case {
	id := fmt.Sprintf("E5/%d/p%d/%s/%s/r%v", hseed, pos, kind, speed, race)
	fam := filterFamily()
	F := fam[[]int{0, 0, 2, 5}[int(hseed)%4]]
	d := e5desc{hseed, pos, kind, speed, F.String(), race}
	return Case{ID: id, Desc: d, Bubble: true, Run: func(r *Res) {
		rng := kit.NewRng(kit.Mix(hseed, 0xE5))
		plan := &kit.Plan{Seed: hseed, PYield: 50}
		if speed != "" {
			plan.Targets = map[string]time.Duration{speed: 300 * time.Microsecond}
		}
		var core *kit.Core
		if !race {
			core = kit.NewCore(plan)
		}
		srv := kit.NewPodServer(core)
		u := smallUniverse()
		for i := 0; i < 2; i++ {
			u.mutate(rng, srv)
		}
		n := 12
		burst := 0
		errs := 0
		var errValue error
		f1 := kit.NoWatchFault()
		f2 := kit.NoWatchFault()
		var lat2 time.Duration
		switch kind {
		case "close":
			f1.CloseAfter = pos
		case "err1", "err2", "err3":
			f1.CloseAfter = pos
			errs = int(kind[3] - '0')
		case "err-timeout", "err-canceled":
			// the reconnect fails once with an error of the class a client-side timeout or
			// an aborted rate-limiter wait produces, while nobody is shutting down
			f1.CloseAfter = pos
			errs = 1
			if kind == "err-timeout" {
				errValue = fmt.Errorf("Get \"https://apiserver/watch\": %w (Client.Timeout exceeded while awaiting headers)", context.DeadlineExceeded)
			} else {
				errValue = fmt.Errorf("client rate limiter Wait returned an error: %w", context.Canceled)
			}
		case "err-401", "err-410", "err-429", "err-503":
			// the reconnect is refused once with an API status error (with and without
			// details / a retry-after hint)
			f1.CloseAfter = pos
			errs = 1
			errValue = map[string]error{
				"err-401": apierrors.NewUnauthorized("token expired"),
				"err-410": apierrors.NewResourceExpired("too old resource version"),
				"err-429": apierrors.NewTooManyRequests("slow down", 1),
				"err-503": apierrors.NewServiceUnavailable("apiserver restarting"),
			}[kind]
		case "status":
			f1.Frames = map[int][]watchEvent{pos: {kit.StatusFrame()}}
		case "status-close":
			f1.Frames = map[int][]watchEvent{pos: {kit.StatusFrame()}}
			f1.CloseAfter = pos
		case "bookmark":
			f1.Frames = map[int][]watchEvent{pos: {kit.BookmarkFrame(1)}}
		case "unknown":
			f1.Frames = map[int][]watchEvent{pos: {kit.UnknownFrame()}}
		case "nilobj":
			f1.Frames = map[int][]watchEvent{pos: {{Type: "ADDED", Object: nil}}}
		case "burst1-close", "burst10-close", "burst60-close":
			burst = map[string]int{"burst1-close": 1, "burst10-close": 10, "burst60-close": 60}[kind]
			f1.CloseAfter = pos + burst
		case "burst10-bookmark-close", "burst60-bookmark-close":
			// a burst the watcher may not have drained yet, then a bookmark for the last
			// event sent, then the stream ends: all pending at once
			burst = map[string]int{"burst10-bookmark-close": 10, "burst60-bookmark-close": 60}[kind]
			f1.CloseAfter = pos + burst
			f1.BookmarkAtClose = true
		case "close-twice":
			f1.CloseAfter = pos
			f2.CloseAfter = 2
		case "slow-connect":
			f1.CloseAfter = pos
			lat2 = 5 * time.Second
		case "dup":
			f1.Dup = map[int]bool{pos: true}
			f1.CloseAfter = pos + 1
		case "flap":
			// every stream closes after 1 + (pos mod 3) events: many disconnects in a row
			f1.CloseAfter = 1 + pos%3
		}
		srv.WatchPlan = func(i int) kit.WatchFault {
			if kind == "flap" {
				return f1
			}
			switch {
			case i == 1:
				return f1
			case i >= 2 && i < 2+errs:
				return kit.WatchFault{Err: true, CloseAfter: -1, ErrValue: errValue}
			case i == 2+errs:
				f := f2
				f.Latency = lat2
				return f
			}
			return kit.NoWatchFault()
		}
		g, err := newCtlRig(core, srv, 10000*time.Hour, F)
		if err != nil {
			r.Inc("builder: " + err.Error())
			return
		}
		sub, _ := g.ctl.Subscribe()
		mir := startMirror("root-subscriber", sub.Events(), sub.Ready(), sub.Cache())
		if !waitCh(g.ctl.Ready(), virtBound) {
			r.V("C04", "never-ready", "controller not ready")
			g.shutdown(r, "C12")
			return
		}
		g.barrier()
		s0, _ := cacheSnap(g.ctl.Cache())
		mir.seed(s0)

		// history with the burst at the fault position
		var trace []string
		for i := 0; i < n; i++ {
			if i == pos && burst > 0 {
				for b := 0; b < burst; b++ {
					trace = append(trace, u.mutate(rng, srv))
				}
			}
			trace = append(trace, u.mutate(rng, srv))
			if rng.Chance(60) {
				time.Sleep(time.Duration(1+rng.Intn(20)) * time.Millisecond)
			}
		}
		// the reconnect delay is 1s per attempt; the refresh period is 10000h
		wait := time.Duration(errs+3)*time.Second + lat2 + 2*time.Second
		if kind == "flap" {
			wait = time.Duration(n+4) * time.Second // one reconnect delay per closed stream
		}
		time.Sleep(wait)
		g.barrier()

		ws := srv.Watches()
		reconnects := 0
		for _, w := range ws {
			if w.N > 1 {
				reconnects++
			}
		}
		r.Add("reconnects", int64(reconnects))
		r.Add("watch-calls", int64(len(ws)))
		if len(srv.Lists()) != 1 {
			r.Inc(fmt.Sprintf("expected exactly one list, saw %d", len(srv.Lists())))
		}
		if isClosed(g.ctl.Done()) {
			r.V("C14", "watch-failure-fatal", "controller terminated (err=%v) after watch fault %s at position %d", g.ctl.Error(), kind, pos)
			r.V("C04", "controller-died", "controller terminated (err=%v) after watch fault %s at position %d", g.ctl.Error(), kind, pos)
			return
		}
		r.Add("not-fatal-checks", 1)
		want := F.Accepted(srv.Objects())
		got, _ := cacheSnap(g.ctl.Cache())
		elapsed := wait
		if !got.Equal(want) {
			r.V("C04", "not-converged-after-reconnect", "fault %s at position %d (slow actor %q): %v after the server went quiet (relists disabled) the cache is %v, accepted server content is %v; watch calls: %s",
				kind, pos, speed, elapsed, got, want, watchSummary(ws))
		} else if core != nil && core.Overruns() == 0 {
			if ms := mir.snap(); !ms.Equal(got) {
				r.V("C04", "events-not-published", "fault %s at position %d: cache %v is right but the subscriber's mirror is %v; last events: %s", kind, pos, got, ms, tailEvents(mir.events(), 10))
			}
		}
		mir.report(r, "C04")
		mir.reportCacheClause(r)
		r.Add("continuity-checks", 1)
		// reconnect versions
		var prev *kit.WatchCall
		maxDelivered := 0
		for i := range ws {
			w := &ws[i]
			if prev != nil {
				lo := kit.Atoi(prev.RV)
				hi := lo
				if prev.LastRV > hi {
					hi = prev.LastRV
				}
				if maxDelivered > hi {
					hi = maxDelivered
				}
				v := kit.Atoi(w.RV)
				r.Add("reconnect-version-checks", 1)
				if v > hi {
					r.V("C04", "reconnect-skips-events", "Watch call #%d resumes at version %s but only versions up to %d had been delivered (previous call at %s): later events would be skipped; calls: %s", w.N, w.RV, hi, prev.RV, watchSummary(ws))
				}
				// events the SUBSCRIBER had received strictly before this call were forwarded
				// by the watcher before the session ended: resuming behind them replays
				// events that have already been applied and published
				pubBefore := 0
				for _, e := range mir.events() {
					if e.At.Before(w.Time) && kit.Atoi(e.RV) > pubBefore {
						pubBefore = kit.Atoi(e.RV)
					}
				}
				if v < pubBefore {
					r.V("C04", "reconnect-replays-published-events", "Watch call #%d resumes at version %s although the subscriber had already received version %d before that call was made: everything in between is applied and published a second time; calls: %s", w.N, w.RV, pubBefore, watchSummary(ws))
				}
				if v < lo {
					r.V("C04", "reconnect-goes-back", "Watch call #%d resumes at version %s, before the previous call's version %s; calls: %s", w.N, w.RV, prev.RV, watchSummary(ws))
				}
			}
			if w.LastRV > maxDelivered {
				maxDelivered = w.LastRV
			}
			prev = w
		}
		// kinds that only insert a frame leave the stream open on the server side: whether the
		// library reconnects after such a frame or skips it is its own business (C04 only says
		// such frames never stop the flow)
		closing := kind != "status" && kind != "bookmark" && kind != "unknown" && kind != "nilobj"
		if closing && reconnects == 0 && pos >= n {
			r.Add("fault-after-history-end", 1)
		} else if closing && reconnects == 0 {
			r.Inc("fault " + kind + " produced no reconnect")
		}
		if core != nil {
			r.Set("signatures", strconv.FormatUint(core.Signature(), 16))
			for _, p := range core.Points() {
				r.Set("points", p)
			}
		}
		r.Add("events-received", int64(mir.count()))
		g.shutdown(r, "C12")
		r.Key(id)
		r.Set("fault-kinds", kind)
		r.Sample = map[string]interface{}{"desc": d, "history": trace, "watch_calls": watchSummary(ws), "final_cache": got.String()}
	}}
}

// e5RelistRetryCase: the one place where relists and reconnects meet.  A watch
// stream ends while a relist is in flight, so the relist completes (and resets
// the watcher) while the reconnect delay is pending.  Much later, with the next
// relist far away, the stream ends again: the events the server emits after
// that must still reach the cache within the reconnect delay.
func e5RelistRetryCase(seed uint64, n int) Case {
	id := fmt.Sprintf("E5/relist-during-retry-delay/%d/%d", seed, n)
	rng0 := kit.NewRng(kit.Mix(seed, uint64(n)+5500))
	L2 := []time.Duration{100 * time.Millisecond, 400 * time.Millisecond, 800 * time.Millisecond, 950 * time.Millisecond}[n%4]
	speed := e5Speeds[rng0.Intn(len(e5Speeds))]
	return Case{ID: id, Desc: map[string]interface{}{"seed": seed, "n": n, "second_list_latency": L2.String(), "slow_point": speed, "what": "relist completes while the reconnect delay is pending; a later disconnect must still be followed by a reconnect"}, Bubble: true, Run: func(r *Res) {
		rng := rng0
		plan := &kit.Plan{Seed: rng.U64(), PYield: 100, PSleep: 20, MaxSleep: 60 * time.Microsecond}
		if speed != "" {
			plan.Targets = map[string]time.Duration{speed: 40 * time.Microsecond}
		}
		core := kit.NewCore(plan)
		srv := kit.NewPodServer(core)
		u := smallUniverse()
		for i := 0; i < 4; i++ {
			u.mutate(rng, srv)
		}
		P := 20 * time.Second
		srv.ListPlan = func(i int) kit.ListFault {
			if i == 2 {
				return kit.ListFault{Latency: L2}
			}
			return kit.ListFault{}
		}
		srv.WatchPlan = func(i int) kit.WatchFault {
			f := kit.NoWatchFault()
			switch i {
			case 1:
				f.CloseAfter = 3 // ends right after the three events put while list #2 is in flight
			case 2:
				f.CloseAfter = 5 // replays those three, then ends after two more
			}
			return f
		}
		g, err := newCtlRig(core, srv, P, nil)
		if err != nil {
			r.Inc(err.Error())
			return
		}
		defer g.shutdown(r, "C12")
		sub, _ := g.ctl.Subscribe()
		mir := startMirror("root-subscriber", sub.Events(), sub.Ready(), sub.Cache())
		if !waitCh(g.ctl.Ready(), virtBound) {
			r.V("C04", "never-ready", "controller not ready")
			return
		}
		g.barrier()
		s0, _ := cacheSnap(g.ctl.Cache())
		mir.seed(s0)
		// wait for list #2 to be in flight
		for i := 0; i < 3000 && len(srv.Lists()) < 2; i++ {
			time.Sleep(10 * time.Millisecond)
		}
		if len(srv.Lists()) != 2 {
			r.Inc("list #2 not observed")
			return
		}
		put := func(k int) {
			for i := 0; i < k; i++ {
				srv.Put(kit.Pod("n0", fmt.Sprintf("r%d", rng.Intn(3)), "", map[string]string{"l": "x"}))
			}
		}
		put(3) // stream #1 ends now; the reconnect delay starts; list #2 returns L2 later
		time.Sleep(L2 + 3*time.Second)
		g.barrier()
		if ws := srv.Watches(); len(ws) != 2 {
			// the schedule this case is about was not produced (e.g. the library reconnects
			// differently): nothing to judge
			r.Add("relist-retry-schedule-not-produced", 1)
			return
		}
		put(2) // stream #2 ends now
		time.Sleep(200 * time.Millisecond)
		put(3) // emitted while no stream is open
		quiesced := time.Now()
		time.Sleep(kcache.VerifWatchRetryDelay + 300*time.Millisecond)
		g.barrier()
		r.Add("relist-during-retry-cases", 1)
		if len(srv.Lists()) > 2 {
			r.Add("relist-intervened", 1)
			return
		}
		want := kit.SnapOf(srv.Objects())
		got, _ := cacheSnap(g.ctl.Cache())
		if !got.Equal(want) {
			r.V("C04", "not-converged-after-reconnect", "a relist completed while the reconnect delay of an earlier disconnect was pending; after a LATER disconnect the server emitted 3 events and went quiet: %v later (reconnect delay %v, next relist not before %v) the cache is %v, the server %v; watch calls: %s", time.Since(quiesced), kcache.VerifWatchRetryDelay, P, got, want, watchSummary(srv.Watches()))
			return
		}
		r.Add("continuity-checks", 1)
		mir.report(r, "C02")
		r.Set("fault-kinds", "relist-during-retry-delay")
		r.Key(id)
		r.Sample = map[string]interface{}{"watch_calls": watchSummary(srv.Watches()), "lists": len(srv.Lists())}
	}}
}

// e5BacklogCase: the stream ends while the controller is far behind (a slow
// filter: the watcher's hand-off buffer holds 50-100 events for more than the
// reconnect delay).  Once the backlog has been worked off the cache equals the
// server, and what the server emits afterwards still arrives within the
// reconnect delay.
func e5BacklogCase(seed uint64, n int) Case {
	id := fmt.Sprintf("E5/stream-ends-under-backlog/%d/%d", seed, n)
	burst := []int{60, 75, 90, 99}[n%4] // below the watcher's buffer: nothing may overflow
	return Case{ID: id, Desc: map[string]interface{}{"seed": seed, "n": n, "burst": burst, "what": "stream close while 50-100 events wait in the watcher's buffer for > reconnect delay"}, Bubble: true, Run: func(r *Res) {
		rng := kit.NewRng(kit.Mix(seed, uint64(n)+5600))
		core := kit.NewCore(&kit.Plan{Seed: rng.U64(), PYield: 100, PSleep: 10, MaxSleep: 40 * time.Microsecond})
		srv := kit.NewPodServer(core)
		srv.Put(kit.Pod("n0", "a", "", map[string]string{"l": "x"}))
		per := time.Duration(50+rng.Intn(30)) * time.Millisecond // 13-20 events consumed per second
		var slow atomic.Bool
		F := kit.TFN("slow-accept-all", func(metav1.Object) bool {
			if slow.Load() {
				core.Sleep(per)
			}
			return true
		})
		srv.WatchPlan = func(i int) kit.WatchFault {
			f := kit.NoWatchFault()
			if i == 1 {
				f.CloseAfter = burst + 1
			}
			return f
		}
		g, err := newCtlRig(core, srv, 10000*time.Hour, F)
		if err != nil {
			r.Inc(err.Error())
			return
		}
		defer g.shutdown(r, "C12")
		if !waitCh(g.ctl.Ready(), virtBound) {
			r.V("C04", "never-ready", "controller not ready")
			return
		}
		g.barrier()
		slow.Store(true)
		for i := 0; i < burst; i++ {
			srv.Put(kit.Pod("n0", fmt.Sprintf("b%d", i%7), "", map[string]string{"l": "x"}))
		}
		// the watcher has taken the whole burst over; one more event ends the stream while
		// the controller is still far behind; it needs burst*per to work the backlog off
		time.Sleep(30 * time.Millisecond)
		srv.Put(kit.Pod("n0", "b0", "", map[string]string{"l": "x"}))
		time.Sleep(time.Duration(burst)*per + 3*time.Second)
		slow.Store(false)
		g.barrier()
		srv.Put(kit.Pod("n0", "late", "", map[string]string{"l": "y"}))
		srv.Delete("n0", "a")
		quiet := time.Now()
		time.Sleep(kcache.VerifWatchRetryDelay + 500*time.Millisecond)
		g.barrier()
		r.Add("continuity-checks", 1)
		want := kit.SnapOf(srv.Objects())
		got, _ := cacheSnap(g.ctl.Cache())
		if len(srv.Lists()) > 1 || core.Overruns() > 0 {
			r.Add("backlog-case-not-judged", 1) // an overflow loses events legitimately (healed by the next relist, C03)
			return
		}
		if !got.Equal(want) {
			r.V("C04", "not-converged-after-reconnect", "the stream ended while %d events were waiting for a slow controller; long after the backlog was gone the server emitted two more events and went quiet: %v later the cache is %v, the server %v (overruns logged: %d); watch calls: %s", burst, time.Since(quiet), got, want, core.Overruns(), watchSummary(srv.Watches()))
			return
		}
		r.Set("fault-kinds", "stream-ends-under-backlog")
		r.Key(id)
		r.Sample = map[string]interface{}{"burst": burst, "watch_calls": watchSummary(srv.Watches())}
	}}
}

func watchSummary(ws []kit.WatchCall) string {
	s := ""
	for _, w := range ws {
		st := "open"
		switch {
		case w.Failed:
			st = "error"
		case w.Closed:
			st = "closed"
		}
		s += fmt.Sprintf("[#%d rv=%s %s delivered=%d last=%d t=%s] ", w.N, w.RV, st, w.Delivered, w.LastRV, w.Time.Format("05.000"))
	}
	return s
}

func init() {
	register("E5", func(tier string, seed uint64) []Case {
		var cases []Case
		nh := tierPick(tier, 1, 300)
		for h := 0; h < nh; h++ {
			hs := kit.Mix(seed, uint64(h)) % 100000
			for pos := 0; pos <= 12; pos++ {
				for _, k := range e5Kinds {
					for si, sp := range e5Speeds {
						if tier == "quick" && si >= 3 && pos%3 != 0 {
							continue
						}
						cases = append(cases, e5Case(hs, pos, k, sp, false))
					}
				}
				cases = append(cases, e5Case(hs, pos, "close", "", true))
			}
		}
		for i := 0; i < tierPick(tier, 16, 600); i++ {
			cases = append(cases, e5RelistRetryCase(seed, i))
		}
		for i := 0; i < tierPick(tier, 8, 200); i++ {
			cases = append(cases, e5BacklogCase(seed, i))
		}
		for i := 0; i < tierPick(tier, 120, 2400); i++ {
			cases = append(cases, eRelistAtExpiryCase("C04", "E5", seed, i))
		}
		return cases
	})
}
