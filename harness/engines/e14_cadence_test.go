package engines

// E14: periodic relisting never stops (C13).  Virtual time; the lister alone
// (exact control of the consumption delay) and the real controller.

import (
	"context"
	"fmt"
	"time"

	"github.com/boz/kcache"
	metav1 "k8s.io/apimachinery/pkg/apis/meta/v1"

	"verifharness/kit"
)

type e14desc struct {
	Target  string  `json:"target"` // lister | controller
	Period  string  `json:"period"`
	LatR    float64 `json:"latency_over_period"`
	ConsR   float64 `json:"consumption_over_period"`
	Cycles  int     `json:"cycles"`
	CloseAt int     `json:"close_phase_16ths"`
	Via     string  `json:"close_via"`
}

var e14Lat = []float64{0, 0.1, 0.5, 0.9, 1, 1.1, 2, 5}
var e14Cons = []float64{0, 0.5, 1, 2}

func frac(p time.Duration, f float64) time.Duration { return time.Duration(float64(p) * f) }

func e14Lister(P time.Duration, lr, cr float64, closeAt int, via string, seed uint64) Case {
	d := e14desc{"lister", P.String(), lr, cr, 20, closeAt, via}
	id := fmt.Sprintf("E14/lister/%s/l%.1f/c%.1f/close%d-%s/%d", P, lr, cr, closeAt, via, seed)
	return Case{ID: id, Desc: d, Bubble: true, Run: func(r *Res) {
		core := kit.NewCore(&kit.Plan{Seed: seed, PYield: 100})
		srv := kit.NewPodServer(core)
		srv.Put(kit.Pod("n0", "a", "", nil))
		lat, cons := frac(P, lr), frac(P, cr)
		srv.ListPlan = func(int) kit.ListFault { return kit.ListFault{Latency: lat} }
		ctx, cancel := context.WithCancel(context.Background())
		defer cancel()
		stopch := make(chan struct{})
		l := kcache.VerifNewLister(ctx, kit.NewLog(core), stopch, P, srv)
		cycle := P + P/10 + P/100 + lat + cons + time.Millisecond
		T := 20 * cycle
		start := time.Now()
		var consumed []time.Time
		quit := make(chan struct{})
		cdone := make(chan struct{})
		go func() {
			defer close(cdone)
			for {
				// the result becomes available when List returns; the consumer picks it
				// up 'cons' later
				n := len(consumed)
				for {
					ls := srv.Lists()
					if len(ls) > n && ls[n].Returned {
						break
					}
					select {
					case <-quit:
						return
					case <-l.Done():
						return
					case <-time.After(P / 200):
					}
				}
				if cons > 0 {
					select {
					case <-time.After(cons):
					case <-quit:
						return
					}
				}
				_, err, ok := l.Recv(quit)
				if !ok {
					return
				}
				if err != nil {
					r.V("C13", "list-result-error", "lister delivered error %v", err)
				}
				consumed = append(consumed, time.Now())
			}
		}()
		closeDelay := T + frac(cycle, float64(closeAt)/16)
		time.Sleep(closeDelay)
		// ---- shutdown at the chosen phase of the cycle ----
		closedAt := time.Now()
		if via == "ctx" {
			cancel()
		} else {
			close(stopch)
		}
		if !waitCh(l.Done(), virtBound) {
			r.V("C13", "shutdown-hang", "lister not done %v after %s at phase %d/16 of the cycle (P=%v latency=%v consumption=%v)\n%s", virtBound, via, closeAt, P, lat, cons, kit.CensusText(kit.Census(), 8))
			close(quit)
			return
		}
		took := time.Since(closedAt)
		close(quit)
		<-cdone
		core.Barrier()
		if gs := kit.Census(); len(gs) > 0 {
			r.V("C13", "goroutine-leak", "after lister shutdown %d library goroutines remain: %v\n%s", len(gs), kit.CensusKeys(gs), kit.CensusText(gs, 5))
		}
		if took > time.Second {
			r.V("C13", "shutdown-slow", "lister took %v of virtual time to stop (client honours cancellation immediately)", took)
		}
		e14Judge(r, srv, consumed, P, lat, cons, closedAt.Sub(start), core.Injected(), d)
		r.Key(id)
	}}
}

func e14Judge(r *Res, srv *kit.Server, consumed []time.Time, P, lat, cons, T, injected time.Duration, d e14desc) {
	lists := srv.Lists()
	if srv.MaxInfl > 1 {
		r.V("C13", "concurrent-lists", "%d list calls were in flight at once (P=%v latency=%v)", srv.MaxInfl, P, lat)
	}
	for k := 0; k+1 < len(lists) && k < len(consumed); k++ {
		gap := lists[k+1].Start.Sub(consumed[k])
		r.Add("gap-checks", 1)
		if gap < P-P/10-time.Microsecond {
			r.V("C13", "relist-too-early", "list #%d started %v after result #%d was consumed; period %v", k+2, gap, k+1, P)
			break
		}
		if gap > P+P/10+injected+time.Millisecond {
			r.V("C13", "relist-too-late", "list #%d started %v after result #%d was consumed; period %v (+10%% fuzz)", k+2, gap, k+1, P)
			break
		}
	}
	cycle := P + P/10 + P/100 + lat + cons + time.Millisecond
	min := int((T-injected)/cycle) - 1
	r.Add("lists", int64(len(lists)))
	r.Add("count-checks", 1)
	if len(lists) < min {
		last := "none"
		if len(lists) > 0 {
			last = fmt.Sprintf("#%d at +%v", len(lists), lists[len(lists)-1].Start.Sub(lists[0].Start))
		}
		r.V("C13", "relisting-stopped", "only %d list calls in %v (period %v, latency %v, consumption delay %v): at least %d expected; last list %s\n%s", len(lists), T, P, lat, cons, min, last, kit.CensusText(kit.Census(), 8))
	}
	r.Sample = map[string]interface{}{"desc": d, "lists": len(lists), "expected_min": min, "virtual_run": T.String()}
}

func e14Controller(P time.Duration, lr float64, slowAccept bool, closeAt int, via string, seed uint64) Case {
	cr := 0.0
	if slowAccept {
		cr = 0.3
	}
	d := e14desc{"controller", P.String(), lr, cr, 20, closeAt, via}
	id := fmt.Sprintf("E14/controller/%s/l%.1f/slow%v/close%d-%s/%d", P, lr, slowAccept, closeAt, via, seed)
	return Case{ID: id, Desc: d, Bubble: true, Run: func(r *Res) {
		core := kit.NewCore(&kit.Plan{Seed: seed, PYield: 100, PSleep: 10, MaxSleep: 100 * time.Microsecond})
		srv := kit.NewPodServer(core)
		rng := kit.NewRng(seed)
		u := smallUniverse()
		for i := 0; i < 3; i++ {
			u.mutate(rng, srv)
		}
		lat := frac(P, lr)
		srv.ListPlan = func(int) kit.ListFault { return kit.ListFault{Latency: lat} }
		F := kit.TNull()
		per := time.Duration(0)
		if slowAccept {
			// consumption delay inside the cache actor: each Accept during a sync takes P/20
			per = P / 20
			F = kit.TFN("slow-accept-all", func(metav1.Object) bool { core.Sleep(per); return true })
		}
		g, err := newCtlRig(core, srv, P, F)
		if err != nil {
			r.Inc(err.Error())
			return
		}
		sub, _ := g.ctl.Subscribe()
		mir := startMirror("sub", sub.Events(), nil, nil)
		cons := 8 * per // upper bound of accept time per relist (<= 6 objects, watch events in between)
		cycle := P + P/10 + lat + cons + time.Millisecond
		T := 20 * cycle
		start := time.Now()
		stopMut := make(chan struct{})
		go func() {
			for {
				select {
				case <-stopMut:
					return
				case <-time.After(P / 2):
					u.mutate(rng, srv)
				}
			}
		}()
		time.Sleep(T + frac(cycle, float64(closeAt)/16))
		close(stopMut)
		closedAt := time.Now()
		injBefore := core.Injected()
		ok := true
		if via == "ctx" {
			g.cancel()
			ok = waitCh(g.ctl.Done(), virtBound)
		} else {
			ok = within(func() { g.ctl.Close() })
		}
		if !ok {
			r.V("C13", "shutdown-hang", "controller not done %v after %s at phase %d/16 (P=%v latency=%v)\n%s", virtBound, via, closeAt, P, lat, kit.CensusText(kit.Census(), 12))
			return
		}
		took := time.Since(closedAt)
		g.cancel()
		core.Barrier()
		if gs := kit.Census(); len(gs) > 0 {
			r.V("C13", "goroutine-leak", "after controller shutdown %d library goroutines remain: %v", len(gs), kit.CensusKeys(gs))
		}
		if injDelta := core.Injected() - injBefore; took-injDelta > time.Second+per { // +per: a sleep already in progress when Close was called
			r.V("C13", "shutdown-slow", "controller took %v of virtual time to stop (of which %v were injected collaborator delays)", took, injDelta)
		}
		// consumption instants are not observable from outside: use the list's return
		// time as a lower bound for "consumed" and only apply the lower gap bound
		lists := srv.Lists()
		var consumed []time.Time
		for _, l := range lists {
			if l.Returned {
				consumed = append(consumed, l.End)
			}
		}
		if srv.MaxInfl > 1 {
			r.V("C13", "concurrent-lists", "%d list calls in flight at once", srv.MaxInfl)
		}
		for k := 0; k+1 < len(lists) && k < len(consumed); k++ {
			gap := lists[k+1].Start.Sub(consumed[k])
			r.Add("gap-checks", 1)
			if gap < P-P/10-time.Microsecond {
				r.V("C13", "relist-too-early", "controller: list #%d started %v after list #%d returned; period %v", k+2, gap, k+1, P)
				break
			}
		}
		inj := core.Injected()
		min := int((closedAt.Sub(start)-inj)/cycle) - 1
		r.Add("lists", int64(len(lists)))
		r.Add("count-checks", 1)
		if len(lists) < min {
			r.V("C13", "relisting-stopped", "controller: only %d list calls in %v (period %v, latency %v): at least %d expected\n%s", len(lists), closedAt.Sub(start), P, lat, min, kit.CensusText(kit.Census(), 8))
		}
		_ = mir
		r.Key(id)
		r.Sample = map[string]interface{}{"desc": d, "lists": len(lists), "expected_min": min}
	}}
}

// e14CtxCase: the context is cancelled from inside each of the library's own
// consultations of it in turn (kit.TrigCtx): a cancellation that coincides
// with the tick, with the start of a list, with the hand-over of a result.
// Whatever the instant, the lister/controller must be done promptly.
func e14CtxCase(target string, P time.Duration, lr float64, seed uint64) Case {
	id := fmt.Sprintf("E14/ctx-at-consultation/%s/%s/l%.1f/%d", target, P, lr, seed)
	return Case{ID: id, Desc: map[string]interface{}{"target": target, "period": P.String(), "latency_over_period": lr, "what": "cancel inside the k-th context consultation, every k"}, Bubble: true, Run: func(r *Res) {
		lat := frac(P, lr)
		run := func(at int) (calls int, ok bool) {
			core := kit.NewCore(&kit.Plan{Seed: kit.Mix(seed, uint64(at)), PYield: 100})
			srv := kit.NewPodServer(core)
			srv.Put(kit.Pod("n0", "a", "", nil))
			srv.ListPlan = func(int) kit.ListFault { return kit.ListFault{Latency: lat} }
			tctx := kit.NewTrigCtx()
			if at > 0 {
				tctx.CancelAtCall(at)
			}
			var done <-chan struct{}
			quit := make(chan struct{})
			defer close(quit)
			switch target {
			case "lister":
				l := kcache.VerifNewLister(tctx, kit.NewLog(core), nil, P, srv)
				done = l.Done()
				go func() {
					for {
						if _, _, ok := l.Recv(quit); !ok {
							return
						}
					}
				}()
			default:
				g, err := newCtlRigCtx(core, srv, P, nil, tctx, tctx.Cancel)
				if err != nil {
					if at > 0 {
						return 0, true // creation refused on a cancelled context: fine
					}
					r.Inc(err.Error())
					return 0, false
				}
				done = g.ctl.Done()
			}
			if at == -1 {
				tctx.Cancel() // (not used)
			}
			T := 5 * (P + P/10 + lat + time.Millisecond)
			select {
			case <-done:
			case <-time.After(T):
			}
			if at > 0 && !tctx.Fired() {
				r.Add("trigger-point-not-reached", 1)
			}
			tctx.Cancel()
			if !waitCh(done, virtBound) {
				where := "at the end of the run"
				if tctx.Fired() {
					where = fmt.Sprintf("inside the library's consultation #%d of its context (%s)", at, tctx.FiredIn())
				}
				r.V("C13", "shutdown-hang", "%s (P=%v, latency=%v): context cancelled %s: not done %v later\n%s", target, P, lat, where, virtBound, kit.CensusText(kit.Census(), 10))
				return tctx.Calls(), false
			}
			core.Barrier()
			if gs := kit.Census(); len(gs) > 0 {
				r.V("C13", "goroutine-leak", "%s: context cancelled inside consultation #%d: %d library goroutines remain: %v\n%s", target, at, len(gs), kit.CensusKeys(gs), kit.CensusText(gs, 5))
				return tctx.Calls(), false
			}
			r.Add("ctx-consultation-shutdowns", 1)
			return tctx.Calls(), true
		}
		n, ok := run(0)
		if !ok {
			return
		}
		r.Max("ctx-consultations-per-run", int64(n))
		for at := 1; at <= n; at++ {
			if _, ok := run(at); !ok {
				return
			}
		}
		r.Key(id)
		r.Sample = map[string]interface{}{"consultations": n}
	}}
}

// e14DeadCtxCase: created on a context that is already cancelled.
func e14DeadCtxCase(target string, seed uint64) Case {
	id := fmt.Sprintf("E14/dead-context/%s/%d", target, seed)
	return Case{ID: id, Desc: map[string]interface{}{"target": target, "what": "created on an already cancelled context"}, Bubble: true, Run: func(r *Res) {
		core := kit.NewCore(&kit.Plan{Seed: seed, PYield: 100})
		srv := kit.NewPodServer(core)
		srv.Put(kit.Pod("n0", "a", "", nil))
		ctx, cancel := context.WithCancel(context.Background())
		cancel()
		var done <-chan struct{}
		if target == "lister" {
			done = kcache.VerifNewLister(ctx, kit.NewLog(core), nil, time.Second, srv).Done()
		} else {
			g, err := newCtlRigCtx(core, srv, time.Second, nil, ctx, cancel)
			if err != nil {
				r.Add("creation-refused", 1)
				r.Key(id)
				return
			}
			done = g.ctl.Done()
		}
		if !waitCh(done, virtBound) {
			r.V("C13", "shutdown-hang", "%s created on an already cancelled context is not done %v later\n%s", target, virtBound, kit.CensusText(kit.Census(), 10))
			return
		}
		core.Barrier()
		if gs := kit.Census(); len(gs) > 0 {
			r.V("C13", "goroutine-leak", "%s created on a cancelled context: %d library goroutines remain: %v", target, len(gs), kit.CensusKeys(gs))
		}
		r.Add("dead-context-cases", 1)
		r.Key(id)
	}}
}

// e14ListErrCase: a list call fails with an error that LOOKS like a shutdown
// artefact (context.Canceled / DeadlineExceeded, bare or wrapped) although
// nobody is shutting down.  The controller may stop (C14 says it must), but it
// must not stay up without ever listing again.
func e14ListErrCase(P time.Duration, kind int, failAt int, seed uint64) Case {
	names := []string{"canceled", "wrapped-canceled", "deadline", "wrapped-deadline"}
	errs := []error{context.Canceled, fmt.Errorf("rate limiter: %w", context.Canceled), context.DeadlineExceeded, fmt.Errorf("http2: %w", context.DeadlineExceeded)}
	id := fmt.Sprintf("E14/list-fails-like-shutdown/%s/%s/at%d/%d", P, names[kind], failAt, seed)
	return Case{ID: id, Desc: map[string]interface{}{"period": P.String(), "error": names[kind], "failing_list": failAt}, Bubble: true, Run: func(r *Res) {
		core := kit.NewCore(&kit.Plan{Seed: seed, PYield: 100})
		srv := kit.NewPodServer(core)
		srv.Put(kit.Pod("n0", "a", "", nil))
		srv.ListPlan = func(i int) kit.ListFault {
			if i == failAt {
				return kit.ListFault{Kind: kit.ListErr, Err: errs[kind]}
			}
			return kit.ListFault{}
		}
		g, err := newCtlRig(core, srv, P, nil)
		if err != nil {
			r.Inc(err.Error())
			return
		}
		time.Sleep(time.Duration(failAt+4) * (P + P/5))
		lists := srv.Lists()
		stopped := isClosed(g.ctl.Done())
		r.Add("list-error-cases", 1)
		if len(lists) < failAt {
			r.V("C13", "relisting-stopped", "only %d list calls before the planned failure of list #%d", len(lists), failAt)
		} else if !stopped && len(lists) <= failAt {
			r.V("C13", "relisting-stopped", "list #%d failed with %q (nobody was shutting down); %v later the controller is still running (Done() open, Error()=%v) and has not issued another list call: it serves a cache it will never refresh again\n%s", failAt, errs[kind], 4*(P+P/5), g.ctl.Error(), kit.CensusText(kit.Census(), 8))
		}
		if stopped {
			r.Add("stopped-after-list-error", 1)
		} else {
			r.Add("kept-listing-after-list-error", 1)
		}
		g.shutdown(r, "C12")
		r.Key(id)
		r.Sample = map[string]interface{}{"lists": len(lists), "stopped": stopped}
	}}
}


// e14LongPeriodCase: refresh periods of years ("list once, then rely on the
// watch").  After the first list nothing is listed for (almost) one period, and
// then the next list comes within the period's fuzz.
func e14LongPeriodCase(P time.Duration, seed uint64) Case {
	id := fmt.Sprintf("E14/long-period/%s/%d", P, seed)
	return Case{ID: id, Desc: map[string]interface{}{"period": P.String(), "what": "multi-year refresh period"}, Bubble: true, Run: func(r *Res) {
		core := kit.NewCore(&kit.Plan{Seed: seed, PYield: 100})
		srv := kit.NewPodServer(core)
		srv.Put(kit.Pod("n0", "a", "", nil))
		srv.MaxLists = 40
		g, err := newCtlRig(core, srv, P, nil)
		if err != nil {
			r.Inc(err.Error())
			return
		}
		if !waitCh(g.ctl.Ready(), virtBound) {
			r.V("C13", "never-ready", "controller not ready")
			return
		}
		time.Sleep(P - P/8)
		core.Barrier()
		r.Add("gap-checks", 1)
		if n := len(srv.Lists()); n != 1 {
			ls := srv.Lists()
			r.V("C13", "relist-too-early", "refresh period %v: %d list calls within %v of the first (the second started %v after the first returned)", P, n, P-P/8, ls[1].Start.Sub(ls[0].End))
			g.shutdown(r, "C12")
			return
		}
		time.Sleep(P / 4)
		core.Barrier()
		r.Add("count-checks", 1)
		if n := len(srv.Lists()); n < 2 {
			r.V("C13", "relisting-stopped", "refresh period %v: still only %d list call %v after the first", P, n, P+P/8)
		}
		r.Add("lists", int64(len(srv.Lists())))
		g.shutdown(r, "C12")
		r.Key(id)
	}}
}

// e14TwoBuildersCase: refresh periods are per controller.  Several builders are
// prepared and configured in one order and created in another; each controller
// relists at ITS period (the default, one minute, where none was given).
func e14TwoBuildersCase(seed uint64, n int) Case {
	id := fmt.Sprintf("E14/builders-side-by-side/%d/%d", seed, n)
	return Case{ID: id, Desc: map[string]interface{}{"n": n, "what": "several builders with different (or default) refresh periods in one process"}, Bubble: true, Run: func(r *Res) {
		core := kit.NewCore(&kit.Plan{Seed: kit.Mix(seed, uint64(n)), PYield: 100})
		log := kit.NewLog(core)
		type spec struct {
			name   string
			period time.Duration // 0 = not set: the default of one minute
			srv    *kit.Server
			ctl    kcache.Controller
			b      kcache.Builder
		}
		specs := []*spec{{name: "A", period: 2 * time.Second}, {name: "B"}, {name: "C", period: time.Hour}, {name: "D", period: 7 * time.Second}}
		order := [][]int{{0, 1, 2, 3}, {3, 2, 1, 0}, {1, 0, 3, 2}, {2, 3, 0, 1}}[n%4]
		ctx, cancel := ctxWithCancel()
		defer cancel()
		// prepare and configure all builders first ...
		for _, i := range order {
			sp := specs[i]
			sp.srv = kit.NewPodServer(core)
			sp.srv.Put(kit.Pod("n0", "a", "", nil))
			sp.b = kcache.NewBuilder().Context(ctx).Log(log).Client(sp.srv)
			if sp.period > 0 {
				sp.b.Lister().RefreshPeriod(sp.period)
			}
		}
		// ... then create them, in the reverse order
		for k := len(order) - 1; k >= 0; k-- {
			sp := specs[order[k]]
			c, err := sp.b.Create()
			if err != nil {
				r.Inc(err.Error())
				return
			}
			sp.ctl = c
		}
		T := 5 * time.Minute
		time.Sleep(T)
		core.Barrier()
		for _, sp := range specs {
			P := sp.period
			if P == 0 {
				P = time.Minute
			}
			lists := sp.srv.Lists()
			lo, hi := int(T/(P+P/10+time.Millisecond)), int(T/(P-P/10))+2
			r.Add("count-checks", 1)
			r.Add("lists", int64(len(lists)))
			if len(lists) < lo || len(lists) > hi {
				what := "relisting-stopped"
				if len(lists) > hi {
					what = "relist-too-early"
				}
				r.V("C13", what, "controller %s (refresh period %v, builders prepared in order %v and created in reverse) issued %d list calls in %v; between %d and %d expected", sp.name, P, order, len(lists), T, lo, hi)
			}
		}
		for _, sp := range specs {
			within(func() { sp.ctl.Close() })
		}
		cancel()
		core.Barrier()
		r.Key(id)
	}}
}


// e14FloodCase: relisting under a flood of watch events that outruns the watcher
// (it is held at its log points): bursts of 150 events arrive between and across
// the relists.  The controller keeps listing at its period and still shuts down.
func e14FloodCase(seed uint64, n int) Case {
	id := fmt.Sprintf("E14/event-flood/%d/%d", seed, n)
	return Case{ID: id, Desc: map[string]interface{}{"n": n, "what": "bursts of 150 watch events against a slowed watcher, across relists"}, Bubble: true, Run: func(r *Res) {
		rng := kit.NewRng(kit.Mix(seed, uint64(n)+1440))
		hold := []time.Duration{500 * time.Microsecond, 2 * time.Millisecond, 4 * time.Millisecond}[n%3]
		core := kit.NewCore(&kit.Plan{Seed: rng.U64(), PYield: 100, Targets: map[string]time.Duration{"watcher|": hold}})
		srv := kit.NewPodServer(core)
		srv.Put(kit.Pod("n0", "a", "", nil))
		P := time.Second
		g, err := newCtlRig(core, srv, P, nil)
		if err != nil {
			r.Inc(err.Error())
			return
		}
		if !waitCh(g.ctl.Ready(), virtBound) {
			r.V("C13", "never-ready", "controller not ready")
			return
		}
		start := time.Now()
		for round := 0; round < 12; round++ {
			for i := 0; i < 150; i++ {
				srv.Put(kit.Pod("n0", fmt.Sprintf("p%d", i%9), "", map[string]string{"l": "x"}))
			}
			time.Sleep(time.Duration(300+rng.Intn(600)) * time.Millisecond)
		}
		T := time.Since(start)
		lists := srv.Lists()
		min := int(T/(P+P/10+time.Millisecond)) - 1
		r.Add("lists", int64(len(lists)))
		r.Add("count-checks", 1)
		if len(lists) < min {
			r.V("C13", "relisting-stopped", "under bursts of 150 watch events (watcher held %v at its log points) only %d list calls were issued in %v (period %v): at least %d expected\n%s", hold, len(lists), T, P, min, kit.CensusText(kit.Census(), 10))
			g.cancel()
			return
		}
		closed := time.Now()
		if !within(func() { g.ctl.Close() }) || !waitCh(g.ctl.Done(), virtBound) {
			r.V("C13", "shutdown-hang", "controller under an event flood: Close() did not complete\n%s", kit.CensusText(kit.Census(), 10))
			g.cancel()
			return
		}
		if took := time.Since(closed) - core.Injected(); took > 2*time.Second {
			r.V("C13", "shutdown-slow", "controller under an event flood took %v of virtual time to stop", time.Since(closed))
		}
		g.cancel()
		core.Barrier()
		r.Key(id)
	}}
}

func init() {
	register("E14", func(tier string, seed uint64) []Case {
		var cases []Case
		for rep := 0; rep < tierPick(tier, 1, 6); rep++ {
			for _, tg := range []string{"lister", "controller"} {
				for _, P := range []time.Duration{time.Second, 10 * time.Second} {
					for _, lr := range []float64{0, 0.5, 1.5} {
						cases = append(cases, e14CtxCase(tg, P, lr, seed+uint64(rep)*31))
					}
				}
				cases = append(cases, e14DeadCtxCase(tg, seed+uint64(rep)))
			}
			for kind := 0; kind < 4; kind++ {
				for _, at := range []int{1, 2, 4} {
					cases = append(cases, e14ListErrCase(time.Second, kind, at, seed+uint64(rep)))
				}
			}
			year := 365 * 24 * time.Hour
			for _, P := range []time.Duration{3 * year, 4 * year, 5 * year, 10 * year, 50 * year, 100000 * time.Hour, 1 << 60, 1 << 62} {
				cases = append(cases, e14LongPeriodCase(P, seed+uint64(rep)))
			}
			for i := 0; i < 4; i++ {
				cases = append(cases, e14TwoBuildersCase(seed+uint64(rep), i))
			}
			for i := 0; i < 6; i++ {
				cases = append(cases, e14FloodCase(seed+uint64(rep), i))
			}
		}
		periods := []time.Duration{time.Second, 10 * time.Second, time.Minute}
		i := 0
		for rep := 0; rep < tierPick(tier, 1, 10); rep++ {
			for _, P := range periods {
				for _, lr := range e14Lat {
					for _, cr := range e14Cons {
						// every grid point; the 16 close phases rotate over the grid in quick
						// and are all taken in thorough
						phases := []int{i % 16}
						if tier == "thorough" {
							phases = nil
							for p := 0; p < 16; p++ {
								phases = append(phases, p)
							}
						}
						for _, ph := range phases {
							via := []string{"stopch", "ctx"}[(i+ph)%2]
							cases = append(cases, e14Lister(P, lr, cr, ph, via, seed+uint64(i)))
						}
						i++
					}
					for _, slow := range []bool{false, true} {
						phases := []int{(i * 5) % 16}
						if tier == "thorough" {
							phases = []int{0, 2, 4, 6, 8, 10, 12, 14, 15}
						}
						for _, ph := range phases {
							via := []string{"close", "ctx"}[(i+ph)%2]
							cases = append(cases, e14Controller(P, lr, slow, ph, via, seed+uint64(i)))
						}
						i++
					}
				}
			}
			seed += 1000003
		}
		return cases
	})
}
