package engines

// E11: slow consumers are isolated: they lose only their own events (C10).

import (
	"fmt"
	"runtime"
	"strconv"
	"sync"
	"sync/atomic"
	"time"

	"github.com/boz/kcache"
	"github.com/boz/kcache/types/pod"
	corev1 "k8s.io/api/core/v1"
	metav1 "k8s.io/apimachinery/pkg/apis/meta/v1"

	"verifharness/kit"
)

var e11Lens = []int{0, 1, 50, 99, 100, 101, 250, 500}

type e11desc struct {
	Path    string `json:"path"`
	L       int    `json:"stream_length"`
	Mask    int    `json:"stalled_mask"`
	Seed    uint64 `json:"seed"`
	Perturb string `json:"perturb"`
}

// checkSubsequence: got is a strictly in-order subsequence of sent (by unique
// version), returns the number matched or -1.
// sameEvent: do a received event and a published one denote the same event?
// The object a Delete carries is not fixed by any property (the library itself
// publishes the wire object for watch deletes and the cached object for deletes
// it synthesises), so deletes are identified by key, everything else by its
// unique version.
func sameEvent(got, pub evrec) bool {
	if got.Type == kcacheDelete && pub.Type == kcacheDelete {
		return got.Key == pub.Key
	}
	return got.RV == pub.RV && got.Type == pub.Type && got.Key == pub.Key
}

func checkSubsequence(got []evrec, sent []evrec) (int, string) {
	j := 0
	for i, e := range got {
		for j < len(sent) && !sameEvent(e, sent[j]) {
			j++
		}
		if j == len(sent) {
			return -1, fmt.Sprintf("received event %d (%s) is not in the published sequence after the previous one (duplicate, reordering, wrong type or foreign event)", i, e)
		}
		j++
	}
	return len(got), ""
}

func checkExact(r *Res, name string, got, sent []evrec) {
	if len(got) != len(sent) {
		r.V("C10", "healthy-subscriber-lost-events", "%s (healthy, backlog<=25) received %d of %d published events while other consumers were stalled; tail: %s", name, len(got), len(sent), tailEvents(got, 5))
		return
	}
	for i := range got {
		if !sameEvent(got[i], sent[i]) {
			r.V("C10", "healthy-subscriber-order", "%s: event %d is %s, published %s", name, i, got[i], sent[i])
			return
		}
	}
}

func e11RootCase(seed uint64, L, mask int, n int) Case {
	rng0 := kit.NewRng(kit.Mix(seed, uint64(L*64+mask)+uint64(n)*7919))
	targets := []string{"", "publisher|distribute event", "subscription|event buffer overrun", "publisher|update:"}
	tgt := targets[rng0.Intn(len(targets))]
	d := e11desc{"rootkit", L, mask, seed, tgt}
	id := fmt.Sprintf("E11/root/L%d/m%02d/%d/%d", L, mask, seed, n)
	return Case{ID: id, Desc: d, Bubble: true, Run: func(r *Res) {
		rng := rng0
		plan := &kit.Plan{Seed: rng.U64(), PYield: 100, PSleep: 20, MaxSleep: 50 * time.Microsecond}
		if tgt != "" {
			plan.Targets = map[string]time.Duration{tgt: 30 * time.Microsecond}
		}
		core := kit.NewCore(plan)
		g := newRootRig(core, nil)
		g.root.MakeReady()
		u := smallUniverse()
		t := newTree(g.root.Publisher())
		add := func(p *node, kind string, f *kit.Term, drain bool) *node {
			nd, err := t.addChild(p, kind, f, drain)
			if err != nil {
				r.V("C10", "tree-build-error", "%v", err)
				return nil
			}
			nd.stalled = !drain && nd.events != nil
			return nd
		}
		// fixed skeleton; mask selects which optional stalled consumers exist
		h1 := add(t.root, "sub", nil, true)
		cl := add(t.root, "clone", nil, false)
		fc := add(t.root, "clonewf", kit.TNull(), false)
		if h1 == nil || cl == nil || fc == nil {
			return
		}
		h2 := add(cl, "sub", nil, true)
		h3 := add(fc, "sub", nil, true)
		var stalled []*node
		var stalledFiltered *node
		if mask&1 != 0 {
			stalled = append(stalled, add(t.root, "sub", nil, false))
		}
		if mask&2 != 0 {
			stalled = append(stalled, add(cl, "sub", nil, false))
		}
		if mask&4 != 0 {
			stalled = append(stalled, add(fc, "sub", nil, false))
		}
		if mask&8 != 0 {
			stalledFiltered = add(t.root, "subwf", kit.TNull(), false)
			stalled = append(stalled, stalledFiltered)
		}
		var wholeClone *node
		if mask&16 != 0 {
			// a whole stalled clone: a clone whose only subscribers never read
			wholeClone = add(t.root, "clone", nil, false)
			stalled = append(stalled, add(wholeClone, "sub", nil, false), add(wholeClone, "sub", nil, false))
		}
		var mon *node
		var release chan struct{}
		if mask&32 != 0 {
			mon = add(fc, "monitor", nil, false)
			release = make(chan struct{})
			mon.handler.mu.Lock()
			mon.handler.block = release
			mon.handler.mu.Unlock()
		}
		// a slow reader: one event per virtual second
		var slow *mirror
		var slowNode *node
		if mask&64 != 0 {
			slowNode = add(cl, "sub", nil, false)
			ch := make(chan kcache.Event)
			go func() {
				defer close(ch)
				for e := range slowNode.events {
					time.Sleep(time.Second)
					ch <- e
				}
			}()
			slow = startMirror("slow-reader", ch, nil, nil)
		}
		for _, s := range stalled {
			if s == nil {
				return
			}
		}
		g.barrier()
		// publish L events, at most 25 in flight for the healthy readers.  In every other
		// case one stalled consumer is CLOSED by its owner in the middle of the overrun
		// (its subscription is busy dropping events while the publisher keeps handing it
		// new ones): the producer and the siblings must not notice.
		closeMidAt := -1
		var closedMid *node
		if (n+mask)%2 == 1 && len(stalled) > 0 && L > kcache.EventBufsiz+20 && stalled[0] != stalledFiltered {
			closeMidAt = kcache.EventBufsiz + 3 + rng.Intn(12)
		}
		for i := 0; i < L; i++ {
			if i == closeMidAt {
				closedMid = stalled[0]
				stalled = stalled[1:]
				go closedMid.closer()
				r.Add("stalled-consumers-closed-mid-overrun", 1)
			}
			okc := make(chan error, 1)
			if !within(func() { _, err := g.mutate(rng, u); okc <- err }) {
				r.V("C10", "producer-blocked", "publishing event %d of %d did not complete within %v of virtual time while consumers were stalled (mask %06b)\n%s", i, L, virtBound, mask, kit.CensusText(kit.Census(), 10))
				return
			}
			if err := <-okc; err != nil {
				r.V("C10", "publish-error", "event %d: %v", i, err)
				return
			}
			if i%25 == 24 {
				g.barrier()
				// caches stay current: the filtered clone's cache tracks the root's
				a, _ := cacheSnap(g.root.Cache().Reader())
				b, _ := cacheSnap(fc.cc.Cache())
				r.Add("cache-current-checks", 1)
				if !a.Equal(b) {
					r.V("C10", "cache-not-current", "after %d events the filtered (accept-all) clone's cache is %v, the root's is %v", i+1, b, a)
					return
				}
				if stalledFiltered != nil {
					// the stalled consumer loses events, its cache must not lose updates
					c, _ := cacheSnap(stalledFiltered.cc.Cache())
					r.Add("cache-current-checks", 1)
					if !a.Equal(c) {
						r.V("C10", "stalled-subscription-cache-stale", "after %d events the cache of the stalled (never reading) accept-all filtered subscription is %v, the root's is %v", i+1, c, a)
						return
					}
				}
			}
		}
		g.barrier()
		if closedMid != nil && !waitCh(closedMid.done, virtBound) {
			r.V("C10", "close-of-stalled-consumer-hangs", "%s (stalled, buffer overrun) was closed by its owner while events kept coming: not done %v later\n%s", closedMid, virtBound, kit.CensusText(kit.Census(), 10))
			return
		}
		if slow != nil {
			time.Sleep(time.Duration(L+2) * time.Second)
			g.barrier()
		}
		sent := g.sent
		if stalledFiltered != nil {
			// the refilter phase below publishes more; healthy readers are compared afterwards
		}
		for _, h := range []*node{h1, h2, h3} {
			checkExact(r, h.String(), h.mir.events(), sent)
			r.Add("healthy-streams-checked", 1)
		}
		a, _ := cacheSnap(g.root.Cache().Reader())
		b, _ := cacheSnap(fc.cc.Cache())
		if !a.Equal(b) {
			r.V("C10", "cache-not-current", "final: filtered clone cache %v != root cache %v", b, a)
		}
		if stalledFiltered != nil {
			if c, _ := cacheSnap(stalledFiltered.cc.Cache()); !a.Equal(c) {
				r.V("C10", "stalled-subscription-cache-stale", "final: cache of the stalled accept-all filtered subscription is %v, the root's is %v", c, a)
			}
		}
		if stalledFiltered != nil && L > kcache.EventBufsiz {
			// (only with a certainly full buffer, so that no refilter event enters it)
			// Refilter on a stalled (full) filtered subscription must neither hang nor
			// stop its cache from following the parent
			fam := filterFamily()
			for _, f := range []*kit.Term{fam[2], fam[0]} {
				var rerr error
				if !within(func() { rerr = stalledFiltered.refilt(f) }) {
					r.V("C10", "refilter-blocked-by-stalled-consumer", "Refilter(%s) on a filtered subscription whose consumer never reads (%d events published) did not return within %v", f, L, virtBound)
					return
				}
				if rerr != nil {
					r.V("C10", "refilter-error", "%v", rerr)
				}
				g.barrier()
				for i := 0; i < 3; i++ {
					if _, err := g.mutate(rng, u); err != nil {
						r.V("C10", "publish-error", "%v", err)
					}
				}
				g.barrier()
				rl, _ := g.root.Cache().List()
				want := f.Accepted(rl)
				c, _ := cacheSnap(stalledFiltered.cc.Cache())
				r.Add("stalled-refilter-checks", 1)
				if !c.Equal(want) {
					r.V("C10", "stalled-subscription-cache-stale", "after Refilter(%s) and 3 more events the cache of the stalled filtered subscription is %v, filter(root) is %v", f, c, want)
					return
				}
			}
		}
		sent = g.sent
		// now drain the stalled consumers
		min := L
		if min > kcache.EventBufsiz {
			min = kcache.EventBufsiz
		}
		for _, s := range stalled {
			evs := drainNow(s.events)
			var got []evrec
			for _, e := range evs {
				got = append(got, evrec{Type: e.Type(), Key: kit.Key(e.Resource()), RV: e.Resource().GetResourceVersion()})
			}
			r.Add("stalled-streams-checked", 1)
			if n, why := checkSubsequence(got, sent); n < 0 {
				r.V("C10", "stalled-stream-not-subsequence", "%s: %s", s, why)
			} else if len(got) < min {
				r.V("C10", "stalled-lost-too-much", "%s never read; %d events were published, it holds %d (< min(L, %d))", s, L, len(got), kcache.EventBufsiz)
			}
			r.Max("stalled-held", int64(len(got)))
		}
		if slow != nil {
			got := slow.events()
			r.Add("slow-streams-checked", 1)
			if n, why := checkSubsequence(got, sent); n < 0 {
				r.V("C10", "slow-stream-not-subsequence", "slow reader: %s", why)
			} else if len(got) < min {
				r.V("C10", "slow-lost-too-much", "slow reader got %d of %d events (< min(L,%d))", len(got), L, kcache.EventBufsiz)
			}
		}
		if mon != nil {
			close(release)
			g.barrier()
			calls := mon.handler.snapshot()
			var got []evrec
			for i, c := range calls {
				if c.Kind == "init" {
					if i != 0 {
						r.V("C16", "init-not-first", "OnInitialize was callback #%d", i)
					}
					continue
				}
				got = append(got, evrec{Type: kcache.EventType(c.Kind), Key: kit.Key(c.Objs[0]), RV: c.Objs[0].GetResourceVersion()})
			}
			r.Add("blocked-monitors-checked", 1)
			if n, why := checkSubsequence(got, sent); n < 0 {
				r.V("C10", "monitor-callbacks-not-subsequence", "monitor with blocked handler: %s", why)
			} else if len(got) < min {
				r.V("C10", "monitor-lost-too-much", "monitor with blocked handler got %d callbacks for %d events (< min(L,%d))", len(got), L, kcache.EventBufsiz)
			}
		}
		if L > kcache.EventBufsiz+1 && len(stalled) > 0 {
			// (informational only: whether and how an overrun is logged is not specified)
			r.Add("overruns", int64(core.Overruns()))
		}
		r.Add("published", int64(len(sent)))
		r.Set("signatures", strconv.FormatUint(core.Signature(), 16))
		g.stop(r, "C12")
		if slow != nil {
			// let the slow reader (1 event per virtual second) run out before leaving the bubble
			waitCh(slow.stopped, virtBound)
		}
		r.Key(id)
		r.Sample = map[string]interface{}{"desc": d, "stalled": len(stalled), "published": len(sent)}
	}}
}

// typed consumer ----------------------------------------------------------------

type typedSink struct {
	mu  sync.Mutex
	seq []evrec
}

func drainTyped(ch <-chan pod.Event) *typedSink {
	s := &typedSink{}
	go func() {
		for e := range ch {
			s.mu.Lock()
			s.seq = append(s.seq, evrec{Type: e.Type(), Key: kit.Key(e.Resource()), RV: e.Resource().GetResourceVersion()})
			s.mu.Unlock()
		}
	}()
	return s
}
func (s *typedSink) events() []evrec {
	s.mu.Lock()
	defer s.mu.Unlock()
	return append([]evrec(nil), s.seq...)
}

func e11CtlCase(seed uint64, L, mask int) Case {
	d := e11desc{"typed-controller", L, mask, seed, ""}
	id := fmt.Sprintf("E11/ctl/L%d/m%02d/%d", L, mask, seed)
	return Case{ID: id, Desc: d, Bubble: true, Run: func(r *Res) {
		rng := kit.NewRng(kit.Mix(seed, uint64(L*64+mask)+5))
		core := kit.NewCore(&kit.Plan{Seed: rng.U64(), PYield: 100, PSleep: 20, MaxSleep: 50 * time.Microsecond})
		srv := kit.NewPodServer(core)
		u := smallUniverse()
		u.mutate(rng, srv)
		ctx, cancel := ctxWithCancel()
		defer cancel()
		ctl, err := pod.BuildController(ctx, kit.NewLog(core), srv)
		if err != nil {
			r.Inc(err.Error())
			return
		}
		healthy, _ := ctl.Subscribe()
		hs := drainTyped(healthy.Events())
		clone, _ := ctl.Clone()
		h2sub, _ := clone.Subscribe()
		hs2 := drainTyped(h2sub.Events())
		var stalled []pod.Subscription
		if mask&1 != 0 {
			s, _ := ctl.Subscribe()
			stalled = append(stalled, s)
		}
		if mask&2 != 0 {
			s, _ := clone.Subscribe()
			stalled = append(stalled, s)
		}
		if mask&4 != 0 {
			s, _ := ctl.SubscribeWithFilter(kit.TNull().Build())
			stalled = append(stalled, s)
		}
		// a slow (not stalled) typed reader: one event per 2 virtual ms while the
		// producer runs ahead; it may lose events but must never see them out of order
		var slowSink *typedSink
		var slowDone chan struct{}
		if mask&1 == 0 || mask&4 != 0 {
			ss, _ := ctl.Subscribe()
			slowSink = &typedSink{}
			slowDone = make(chan struct{})
			go func() {
				defer close(slowDone)
				for e := range ss.Events() {
					time.Sleep(2 * time.Millisecond)
					slowSink.mu.Lock()
					slowSink.seq = append(slowSink.seq, evrec{Type: e.Type(), Key: kit.Key(e.Resource()), RV: e.Resource().GetResourceVersion()})
					slowSink.mu.Unlock()
				}
			}()
		}
		var release chan struct{}
		var mcalls []evrec
		var mmu sync.Mutex
		if mask&8 != 0 {
			release = make(chan struct{})
			h := pod.BuildHandler().
				OnInitialize(func([]*corev1.Pod) { <-release }).
				OnCreate(func(p *corev1.Pod) {
					mmu.Lock()
					mcalls = append(mcalls, evrec{Type: kcacheCreate, Key: kit.Key(p), RV: p.ResourceVersion})
					mmu.Unlock()
				}).
				OnUpdate(func(p *corev1.Pod) {
					mmu.Lock()
					mcalls = append(mcalls, evrec{Type: kcacheUpdate, Key: kit.Key(p), RV: p.ResourceVersion})
					mmu.Unlock()
				}).
				OnDelete(func(p *corev1.Pod) {
					mmu.Lock()
					mcalls = append(mcalls, evrec{Type: kcacheDelete, Key: kit.Key(p), RV: p.ResourceVersion})
					mmu.Unlock()
				}).Create()
			if _, err := pod.NewMonitor(ctl, h); err != nil {
				r.V("C10", "tree-build-error", "%v", err)
				return
			}
		}
		if !waitCh(ctl.Ready(), virtBound) {
			r.V("C10", "never-ready", "typed controller not ready")
			return
		}
		core.Barrier()
		base := len(srv.LogCopy())
		for i := 0; i < L; i++ {
			u.mutate(rng, srv)
			if i%3 == 2 {
				time.Sleep(time.Millisecond) // the slow reader frees a slot every 2ms: it reads while events keep arriving
			}
			if i%25 == 24 {
				core.Barrier()
				want := kit.SnapOf(srv.Objects())
				l, _ := ctl.Cache().List()
				got := kit.Snap{}
				for _, p := range l {
					got[kit.Key(p)] = p.ResourceVersion
				}
				r.Add("cache-current-checks", 1)
				if !got.Equal(want) {
					r.V("C10", "cache-not-current", "typed controller cache %v != server %v after %d mutations with stalled consumers (mask %04b)", got, want, i+1, mask)
					return
				}
			}
		}
		core.Barrier()
		// the published sequence is the server log (watch path, no faults): creates
		// and updates are re-typed by cache membership, so compare key+version only
		var sent []evrec
		for _, e := range srv.LogCopy()[base:] {
			m := e.Obj.(*corev1.Pod)
			typ := kcacheUpdate
			switch e.Type {
			case "ADDED":
				typ = kcacheCreate
			case "DELETED":
				typ = kcacheDelete
			}
			sent = append(sent, evrec{Type: typ, Key: kit.Key(m), RV: m.ResourceVersion})
		}
		for i, h := range []*typedSink{hs, hs2} {
			checkExact(r, fmt.Sprintf("healthy typed subscriber %d", i), h.events(), sent)
			r.Add("healthy-streams-checked", 1)
		}
		if slowSink != nil {
			time.Sleep(time.Duration(L+10) * 2 * time.Millisecond)
			core.Barrier()
			got := slowSink.events()
			r.Add("slow-streams-checked", 1)
			if n, why := checkSubsequence(got, sent); n < 0 {
				r.V("C10", "slow-stream-not-subsequence", "slow typed subscriber (one event per 2ms, %d published): %s", L, why)
			} else if len(got) < min(L, kcache.EventBufsiz) {
				r.V("C10", "slow-lost-too-much", "slow typed subscriber got %d of %d events", len(got), L)
			}
		}
		min := L
		if min > kcache.EventBufsiz {
			min = kcache.EventBufsiz
		}
		for i, s := range stalled {
			var got []evrec
			if i == 0 && L > kcache.EventBufsiz {
				// the overrun consumer resumes with a PARTIAL read (its buffer now has
				// room), then 20 more events are published: those fit and must arrive
				for _, e := range takeSettled(core, s.Events(), 50) {
					got = append(got, evrec{Type: e.Type(), Key: kit.Key(e.Resource()), RV: e.Resource().ResourceVersion})
				}
				before := len(srv.LogCopy())
				for k := 0; k < 20; k++ {
					u.mutate(rng, srv)
				}
				core.Barrier()
				var fresh []evrec
				for _, e := range srv.LogCopy()[before:] {
					m := e.Obj.(*corev1.Pod)
					typ := kcacheUpdate
					switch e.Type {
					case "ADDED":
						typ = kcacheCreate
					case "DELETED":
						typ = kcacheDelete
					}
					fresh = append(fresh, evrec{Type: typ, Key: kit.Key(m), RV: m.ResourceVersion})
				}
				sent = append(sent, fresh...)
				r.Add("resumed-consumer-checks", 1)
				defer func(fresh []evrec, gotp *[]evrec) {
					missing := 0
					for _, e := range fresh {
						found := false
						for _, g := range *gotp {
							if sameEvent(g, e) {
								found = true
							}
						}
						if !found {
							missing++
						}
					}
					if missing > 0 {
						r.V("C10", "resumed-consumer-lost-events", "a typed subscriber that had overrun, then read 50 events (so its buffer had room) did not receive %d of the %d events published afterwards", missing, len(fresh))
					}
				}(fresh, &got)
			}
			for _, e := range takeSettled(core, s.Events(), -1) {
				got = append(got, evrec{Type: e.Type(), Key: kit.Key(e.Resource()), RV: e.Resource().ResourceVersion})
			}
			r.Add("stalled-streams-checked", 1)
			if n, why := checkSubsequence(got, sent); n < 0 {
				r.V("C10", "stalled-stream-not-subsequence", "stalled typed subscriber %d: %s", i, why)
			} else if len(got) < min {
				r.V("C10", "stalled-lost-too-much", "stalled typed subscriber %d holds %d of %d events (< min(L,%d))", i, len(got), L, kcache.EventBufsiz)
			}
		}
		if release != nil {
			close(release)
			core.Barrier()
			mmu.Lock()
			got := append([]evrec(nil), mcalls...)
			mmu.Unlock()
			r.Add("blocked-monitors-checked", 1)
			if n, why := checkSubsequence(got, sent); n < 0 {
				r.V("C10", "monitor-callbacks-not-subsequence", "typed monitor with blocked handler: %s", why)
			} else if len(got) < min {
				r.V("C10", "monitor-lost-too-much", "typed monitor with blocked handler got %d callbacks for %d events", len(got), L)
			}
		}
		r.Add("published", int64(len(sent)))
		if !within(func() { ctl.Close() }) {
			r.V("C12", "close-hang", "typed controller Close() hung")
			return
		}
		core.Barrier()
		if slowDone != nil {
			waitCh(slowDone, virtBound) // the slow reader runs out once its channel is closed
		}
		if gs := kit.Census(); len(gs) > 0 {
			r.V("C12", "goroutine-leak", "%d library goroutines remain: %v", len(gs), kit.CensusKeys(gs))
		}
		r.Key(id)
		r.Sample = map[string]interface{}{"desc": d, "published": len(sent), "stalled": len(stalled)}
	}}
}

// e11StressCase: real time, real parallelism (no bubble): typed consumers that
// lag exactly one buffer behind (they only read when their buffer is full)
// while the producer runs flat out.  What they read may have gaps but must be
// in publication order.
// takeSettled receives up to max events (all if max < 0) the way a consumer that
// resumes reading would: it stops only when nothing arrives although the whole
// bubble has settled.  (A bare non-blocking read right after the first Events()
// call would judge the scheduler, not the library: an implementation may move
// events into the consumer-facing buffer lazily.)
func takeSettled(core *kit.Core, ch <-chan pod.Event, max int) []pod.Event {
	var out []pod.Event
	for max < 0 || len(out) < max {
		select {
		case e, ok := <-ch:
			if !ok {
				return out
			}
			out = append(out, e)
			continue
		default:
		}
		core.Barrier()
		select {
		case e, ok := <-ch:
			if !ok {
				return out
			}
			out = append(out, e)
		default:
			return out
		}
	}
	return out
}

func e11StressCase(seed uint64, n int) Case {
	id := fmt.Sprintf("E11/stress-typed/%d/%d", seed, n)
	return Case{ID: id, Desc: map[string]interface{}{"seed": seed, "n": n, "what": "typed consumers reading at the overrun boundary, real time"}, Bubble: false, Run: func(r *Res) {
		rng := kit.NewRng(kit.Mix(seed, uint64(n)+1111))
		old := runtime.GOMAXPROCS([]int{4, 8, 16}[rng.Intn(3)])
		defer runtime.GOMAXPROCS(old)
		srv := kit.NewPodServer(nil)
		u := smallUniverse()
		u.mutate(rng, srv)
		ctx, cancel := ctxWithCancel()
		defer cancel()
		ctl, err := pod.BuildController(ctx, kit.NullLog{}, srv)
		if err != nil {
			r.Inc(err.Error())
			return
		}
		select {
		case <-ctl.Ready():
		case <-time.After(20 * time.Second):
			r.Inc("typed controller not ready within 20s wall-clock")
			return
		}
		var stop atomic.Bool
		var wg sync.WaitGroup
		var reads atomic.Int64
		consumers := 4 + rng.Intn(5)
		for c := 0; c < consumers; c++ {
			var sub pod.Subscription
			if c%2 == 0 {
				sub, _ = ctl.Subscribe()
			} else {
				cl, _ := ctl.Clone()
				sub, _ = cl.Subscribe()
			}
			wg.Add(1)
			go func(c int, ch <-chan pod.Event) {
				defer wg.Done()
				last := 0
				for !stop.Load() {
					if len(ch) < kcache.EventBufsiz {
						runtime.Gosched()
						continue
					}
					for k := 0; k < 1+c%3; k++ {
						select {
						case e, ok := <-ch:
							if !ok {
								return
							}
							v := kit.Atoi(e.Resource().ResourceVersion)
							reads.Add(1)
							if e.Type() == kcacheDelete {
								// the version a delete's payload carries is not specified (wire
								// object or last cached object): deletes are not judged here
								continue
							}
							if v <= last {
								r.V("C10", "slow-stream-not-subsequence", "typed consumer %d (reading only when its buffer is full) received version %d after version %d: out of publication order (or duplicate)", c, v, last)
								return
							}
							last = v
						default:
						}
					}
				}
			}(c, sub.Events())
		}
		total := 6000
		for i := 0; i < total && !r.Failed(); i++ {
			u.mutate(rng, srv)
			if i%64 == 63 {
				runtime.Gosched()
			}
		}
		time.Sleep(20 * time.Millisecond)
		stop.Store(true)
		wg.Wait()
		ctl.Close()
		r.Add("stress-typed-reads", reads.Load())
		r.Add("stress-typed-cases", 1)
		r.Key(id)
		r.Sample = map[string]interface{}{"consumers": consumers, "events": total, "reads_at_overrun_boundary": reads.Load()}
	}}
}


// e11ResumeCase: a consumer stalls until its buffer has overrun, stays stalled
// for a long (virtual) time while events keep coming, then resumes reading.
// Before, during and after, its siblings receive everything, and once it has
// made room it receives what is published from then on.
func e11ResumeCase(seed uint64, n int) Case {
	id := fmt.Sprintf("E11/stall-then-resume/%d/%d", seed, n)
	stall := []time.Duration{50 * time.Millisecond, 3 * time.Second, 11 * time.Second, 65 * time.Second, 10 * time.Minute}[n%5]
	return Case{ID: id, Desc: map[string]interface{}{"seed": seed, "n": n, "stalled_for": stall.String(), "what": "overrun, long stall with events trickling in, resume"}, Bubble: true, Run: func(r *Res) {
		rng := kit.NewRng(kit.Mix(seed, uint64(n)+1170))
		core := kit.NewCore(&kit.Plan{Seed: rng.U64(), PYield: 100, PSleep: []int{15, 50, 80}[n%3], MaxSleep: 150 * time.Microsecond})
		g := newRootRig(core, nil)
		defer g.stop(r, "C12")
		g.root.MakeReady()
		u := smallUniverse()
		pub := g.root.Publisher()
		hs, _ := pub.Subscribe()
		hm := startMirror("healthy sibling", hs.Events(), hs.Ready(), nil)
		var lag kcache.Subscription
		if n%2 == 0 {
			lag, _ = pub.Subscribe()
		} else {
			cl, _ := pub.Clone()
			lag, _ = cl.Subscribe()
		}
		g.barrier()
		publish1 := func() bool {
			done := make(chan error, 1)
			go func() { _, err := g.mutate(rng, u); done <- err }()
			select {
			case err := <-done:
				if err != nil {
					r.V("C10", "publish-error", "%v", err)
					return false
				}
				return true
			case <-time.After(time.Minute):
				r.V("C10", "producer-blocked", "publishing an event did not complete within a minute of virtual time right after a stalled consumer resumed\n%s", kit.CensusText(kit.Census(), 10))
				return false
			}
		}
		publish := func(k int) bool {
			for i := 0; i < k; i++ {
				done := make(chan error, 1)
				go func() { _, err := g.mutate(rng, u); done <- err }()
				select {
				case err := <-done:
					if err != nil {
						r.V("C10", "publish-error", "%v", err)
						return false
					}
				case <-time.After(time.Minute):
					r.V("C10", "producer-blocked", "publishing an event did not complete within a minute of virtual time while one consumer had stalled for %v and resumed\n%s", stall, kit.CensusText(kit.Census(), 10))
					return false
				}
				if i%20 == 19 {
					g.barrier()
				}
			}
			g.barrier()
			return true
		}
		var got []evrec
		take := func() {
			for len(lag.Events()) > 0 {
				e := <-lag.Events()
				got = append(got, evrec{Type: e.Type(), Key: kit.Key(e.Resource()), RV: e.Resource().GetResourceVersion()})
			}
		}
		missing, cycles := 0, 4
		for cyc := 0; cyc < cycles; cyc++ {
			if !publish(kcache.EventBufsiz + 20) { // the lagging consumer overruns
				return
			}
			// events keep trickling in while it stays stalled
			for i := 0; i < 4; i++ {
				time.Sleep(stall / 4)
				if !publish(1) {
					return
				}
			}
			// it resumes: takes everything that is there
			take()
			g.barrier()
			before := g.sentCount()
			// a few events right behind one another at the moment of recovery
			for i := 0; i < 5; i++ {
				if !publish1() {
					return
				}
				if rng.Chance(40) {
					time.Sleep(time.Duration(rng.Intn(120)) * time.Microsecond)
				}
			}
			g.barrier()
			take()
			for _, e := range g.sent[before:] {
				found := false
				for _, x := range got {
					if sameEvent(x, e) {
						found = true
					}
				}
				if !found {
					missing++
				}
			}
			r.Add("resumed-consumer-checks", 1)
		}
		sent := g.sent
		checkExact(r, "healthy sibling of a consumer that stalled for "+stall.String()+" and resumed", hm.events(), sent)
		r.Add("healthy-streams-checked", 1)
		if nn, why := checkSubsequence(got, sent); nn < 0 {
			r.V("C10", "slow-stream-not-subsequence", "resumed consumer: %s", why)
		}
		if missing > 0 {
			r.V("C10", "resumed-consumer-lost-events", "a consumer that had overrun, stayed stalled for %v and then emptied its buffer did not receive %d of the %d events published right afterwards (it had room for all of them)", stall, missing, 5*cycles)
		}
		r.Key(id)
	}}
}

// e11CatchUpCase: a consumer that never read has a full buffer; one more event
// overruns it, and while the library is still busy reporting that overrun (the
// harness's logger holds the moment open) the consumer takes everything it
// holds.  Events published AFTER it has emptied its buffer were at no moment
// beyond its buffer capacity: it receives every one of them, in order.
func e11CatchUpCase(seed uint64, n int) Case {
	id := fmt.Sprintf("E11/catch-up-during-overrun-report/%d/%d", seed, n)
	hold := []time.Duration{200 * time.Microsecond, time.Millisecond, 5 * time.Millisecond}[n%3]
	d := e11desc{"catch-up-during-overrun-report", n, 0, seed, "overrun:" + hold.String()}
	return Case{ID: id, Desc: d, Bubble: true, Run: func(r *Res) {
		rng := kit.NewRng(kit.Mix(seed, uint64(n)+0xCA7C4))
		core := kit.NewCore(&kit.Plan{Seed: rng.U64(), PYield: 100, Targets: map[string]time.Duration{"overrun": hold, "buffer full": hold}})
		g := newRootRig(core, nil)
		g.root.MakeReady()
		t := newTree(g.root.Publisher())
		parent := t.root
		if n%2 == 1 {
			cl, err := t.addChild(t.root, "clone", nil, false)
			if err != nil {
				r.V("C10", "tree-build-error", "%v", err)
				return
			}
			parent = cl
		}
		lag, err1 := t.addChild(parent, "sub", nil, false)
		hl, err2 := t.addChild(parent, "sub", nil, true)
		if err1 != nil || err2 != nil {
			r.V("C10", "tree-build-error", "%v %v", err1, err2)
			return
		}
		lag.stalled = true
		g.barrier()
		rv := 0
		pub := func() (evrec, bool) {
			rv++
			o := kit.Pod("n0", fmt.Sprintf("k%d", rv%5), strconv.Itoa(rv), map[string]string{"l": "x"})
			typ := kcache.EventTypeUpdate
			if rv <= 5 {
				typ = kcache.EventTypeCreate
			}
			var err error
			if !within(func() { _, err = g.apply(typ, o) }) {
				r.V("C10", "producer-blocked", "publishing event %d did not complete within %v of virtual time\n%s", rv, virtBound, kit.CensusText(kit.Census(), 10))
				return evrec{}, false
			}
			if err != nil {
				r.V("C10", "publish-error", "%v", err)
				return evrec{}, false
			}
			return evrec{Type: typ, Key: kit.Key(o), RV: o.GetResourceVersion()}, true
		}
		for i := 0; i < kcache.EventBufsiz; i++ {
			if _, ok := pub(); !ok {
				return
			}
			if i%25 == 24 {
				g.barrier()
			}
		}
		g.barrier()
		if len(lag.events) != kcache.EventBufsiz {
			r.Add("buffer-not-full-before-overrun", 1) // (a library with another buffer size: the case says nothing)
			g.stop(r, "C12")
			return
		}
		// the overrun: one event too many; its report is held open by the logger
		if _, ok := pub(); !ok {
			return
		}
		time.Sleep(hold / 4)
		took := len(drainNow(lag.events))
		// the consumer has emptied its buffer; everything from here on has room
		k := 1 + n%3
		var due []evrec
		for i := 0; i < k; i++ {
			e, ok := pub()
			if !ok {
				return
			}
			due = append(due, e)
		}
		g.barrier()
		var got []evrec
		for _, e := range drainNow(lag.events) {
			got = append(got, evrec{Type: e.Type(), Key: kit.Key(e.Resource()), RV: e.Resource().GetResourceVersion()})
		}
		r.Add("catch-up-checks", 1)
		if core.Overruns() > 0 {
			r.Add("catch-ups-with-the-report-held", 1)
		}
		// got may start with the overrunning event (if the library had not dropped it
		// yet when the buffer was emptied); after that: exactly the due events
		tail := got
		if len(tail) > len(due) {
			tail = tail[len(tail)-len(due):]
		}
		ok := len(tail) == len(due)
		for i := 0; ok && i < len(due); i++ {
			ok = sameEvent(tail[i], due[i])
		}
		if !ok {
			r.V("C10", "resumed-consumer-lost-events", "the consumer took all %d events it held while its overrun was being reported; the %d event(s) published AFTER that (its buffer empty, nothing else in flight) are %v, it received %v: events that had room in its buffer were lost", took, len(due), due, got)
		}
		if hg := hl.mir.events(); len(hg) != rv {
			r.V("C10", "healthy-subscriber-lost-events", "the reading sibling got %d of %d events", len(hg), rv)
		}
		g.stop(r, "C12")
		r.Key(id)
		r.Sample = map[string]interface{}{"desc": d, "taken_during_report": took, "published_after": k, "received_after": len(got)}
	}}
}

func init() {
	register("E11", func(tier string, seed uint64) []Case {
		var cases []Case
		rng := kit.NewRng(seed ^ 0xE11)
		for _, L := range e11Lens {
			masks := map[int]bool{0: true, 127: true, 1: true, 32: true}
			nm := tierPick(tier, 10, 127)
			for len(masks) < nm+4 && len(masks) < 128 {
				masks[rng.Intn(128)] = true
			}
			for m := 0; m < 128; m++ {
				if masks[m] {
					for rep := 0; rep < tierPick(tier, 1, 8); rep++ {
						cases = append(cases, e11RootCase(seed, L, m, rep))
					}
				}
			}
			for m := 0; m < 16; m++ {
				if tier == "thorough" || m == 0 || m == 15 || (m+L)%3 == 0 {
					cases = append(cases, e11CtlCase(seed, L, m))
				}
			}
		}
		for i := 0; i < tierPick(tier, 16, 2000); i++ {
			cases = append(cases, e11StressCase(seed, i))
		}
		for i := 0; i < tierPick(tier, 20, 1000); i++ {
			cases = append(cases, e11ResumeCase(seed, i))
		}
		for i := 0; i < tierPick(tier, 40, 1200); i++ {
			cases = append(cases, e11PartialBatchCase(seed, i))
		}
		for i := 0; i < tierPick(tier, 36, 1200); i++ {
			cases = append(cases, e11CatchUpCase(seed, i))
		}
		return cases
	})
}

// e11PartialBatchCase: a filtered subscription whose consumer never reads holds
// H (< buffer) events when a Refilter produces a batch of T events of which only
// a part fits.  The stalled consumer loses only what is beyond its buffer: it
// ends up with min(H+T, EventBufsiz) events - the H earlier ones in order, then
// distinct events of the batch (the order inside one batch is free, C02) - and a
// reading sibling with the same filters gets all H+T when the batch fits its
// (emptied) buffer.
func e11PartialBatchCase(seed uint64, n int) Case {
	rng0 := kit.NewRng(kit.Mix(seed, 0xE11BA7C4+uint64(n)))
	H := rng0.Intn(kcache.EventBufsiz)
	B := 1 + rng0.Intn(kcache.EventBufsiz+50)
	switch n % 4 {
	case 1:
		// the batch alone would fit, together with what is held it does not
		H = kcache.EventBufsiz/2 + rng0.Intn(kcache.EventBufsiz/2)
		B = kcache.EventBufsiz - H + 1 + rng0.Intn(H)
	case 2:
		H = kcache.EventBufsiz - 1 - rng0.Intn(3)
	}
	d := e11desc{"partial-batch", H*1000 + B, 0, seed, ""}
	id := fmt.Sprintf("E11/partial-batch/H%d/B%d/%d/%d", H, B, seed, n)
	return Case{ID: id, Desc: d, Bubble: true, Run: func(r *Res) {
		rng := rng0
		core := kit.NewCore(&kit.Plan{Seed: rng.U64(), PYield: 100, PSleep: 20, MaxSleep: 50 * time.Microsecond})
		g := newRootRig(core, nil)
		g.root.MakeReady()
		t := newTree(g.root.Publisher())
		ly := kit.TLabels(map[string]string{"l": "y"})
		lx := kit.TLabels(map[string]string{"l": "x"})
		st, err1 := t.addChild(t.root, "subwf", ly, false)
		hl, err2 := t.addChild(t.root, "subwf", ly, true)
		if err1 != nil || err2 != nil {
			r.V("C10", "tree-build-error", "%v %v", err1, err2)
			return
		}
		st.stalled = true
		g.barrier()
		rv := 0
		next := func() string { rv++; return strconv.Itoa(rv) }
		npub := 0
		pub := func(typ kcache.EventType, o metav1.Object) bool {
			// at most 25 events in flight: the filtered subscriptions' own loops are
			// slowed by the injected delays and read from a parent buffer of their own
			if npub++; npub%25 == 0 {
				g.barrier()
			}
			var err error
			if !within(func() { _, err = g.apply(typ, o) }) {
				r.V("C10", "producer-blocked", "publishing did not complete within %v of virtual time while a consumer was stalled\n%s", virtBound, kit.CensusText(kit.Census(), 10))
				return false
			}
			if err != nil {
				r.V("C10", "publish-error", "%v", err)
				return false
			}
			return true
		}
		want := map[string]evrec{} // the batch: key -> event
		for i := 0; i < B; i++ {
			o := kit.Pod("n0", fmt.Sprintf("o%03d", i), next(), map[string]string{"l": "x"})
			if !pub(kcache.EventTypeCreate, o) {
				return
			}
			want[kit.Key(o)] = evrec{Type: kcache.EventTypeCreate, Key: kit.Key(o), RV: o.GetResourceVersion()}
		}
		var held []evrec
		for i := 0; i < H; i++ {
			o := kit.Pod("n1", "y", next(), map[string]string{"l": "y"})
			typ := kcache.EventTypeUpdate
			if i == 0 {
				typ = kcache.EventTypeCreate
			}
			if !pub(typ, o) {
				return
			}
			held = append(held, evrec{Type: typ, Key: kit.Key(o), RV: o.GetResourceVersion()})
		}
		if H > 0 {
			want["n1/y"] = evrec{Type: kcache.EventTypeDelete, Key: "n1/y", RV: held[len(held)-1].RV}
		}
		T := len(want)
		g.barrier()
		for _, nd := range []*node{st, hl} {
			var rerr error
			if !within(func() { rerr = nd.refilt(lx) }) {
				r.V("C10", "refilter-blocked-by-stalled-consumer", "Refilter on %s (holding %d unread events, batch of %d) did not return within %v", nd, H, T, virtBound)
				return
			}
			if rerr != nil {
				r.V("C10", "refilter-error", "%v", rerr)
				return
			}
		}
		g.barrier()
		judge := func(name string, got []evrec, min int) {
			for i := 0; i < H && i < len(got); i++ {
				if !sameEvent(got[i], held[i]) {
					r.V("C10", "stalled-stream-not-subsequence", "%s: event #%d is %s %s@%s, published was %s %s@%s (H=%d B=%d holds %d)", name, i, got[i].Type, got[i].Key, got[i].RV, held[i].Type, held[i].Key, held[i].RV, H, B, len(got))
					return
				}
			}
			seen := map[string]bool{}
			for i := H; i < len(got); i++ {
				w, ok := want[got[i].Key]
				if !ok || seen[got[i].Key] || !sameEvent(got[i], w) {
					r.V("C10", "stalled-stream-not-subsequence", "%s: event #%d (%s %s@%s) is not an event of the Refilter batch, or a repeated one (expected for that key: %v %s@%s, present %v)", name, i, got[i].Type, got[i].Key, got[i].RV, w.Type, w.Key, w.RV, ok)
					return
				}
				seen[got[i].Key] = true
			}
			if len(got) < min {
				r.V("C10", "stalled-lost-too-much", "%s: %d events were held unread, a Refilter then produced a batch of %d; it holds %d afterwards (< min(%d, buffer %d)): events that had room in the buffer were lost", name, H, T, len(got), H+T, kcache.EventBufsiz)
			}
		}
		min := H + T
		if min > kcache.EventBufsiz {
			min = kcache.EventBufsiz
		}
		var got []evrec
		for _, e := range drainNow(st.events) {
			got = append(got, evrec{Type: e.Type(), Key: kit.Key(e.Resource()), RV: e.Resource().GetResourceVersion()})
		}
		judge(st.String()+" (never read)", got, min)
		r.Max("stalled-held", int64(len(got)))
		r.Add("partial-batch-checks", 1)
		if H+T > kcache.EventBufsiz && H < kcache.EventBufsiz {
			r.Add("batches-that-partly-fit", 1)
		}
		hg := hl.mir.events()
		// (the reader had emptied its buffer before the Refilter: a batch up to the
		// buffer size fits whole; how much of a larger burst a concurrent reader
		// catches is a matter of scheduling and not judged)
		hmin := H + T
		if T > kcache.EventBufsiz {
			hmin = H + kcache.EventBufsiz
		}
		judge(hl.String()+" (reading)", hg, hmin)
		if len(hg) > H+T {
			r.V("C10", "healthy-subscriber-lost-events", "%s (reading) got %d events, %d were due", hl, len(hg), H+T)
		}
		// the cache of the stalled subscription follows the new filter all the same
		rl, _ := g.root.Cache().List()
		c, _ := cacheSnap(st.cc.Cache())
		if w := lx.Accepted(rl); !c.Equal(w) {
			r.V("C10", "stalled-subscription-cache-stale", "after the Refilter the cache of the stalled filtered subscription is %v, filter(root) is %v", c, w)
		}
		r.Add("published", int64(H+B))
		g.stop(r, "C12")
		r.Key(id)
		r.Sample = map[string]interface{}{"desc": d, "held": H, "batch": T, "stalled_holds": len(got)}
	}}
}
