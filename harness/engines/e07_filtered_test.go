package engines

// E7: a filtered subscription or clone is exactly its filter applied to its
// parent (C06).

import (
	"fmt"
	"strconv"
	"time"

	"github.com/boz/kcache"
	"github.com/boz/kcache/filter"
	"github.com/boz/kcache/nsname"

	"verifharness/kit"
)

type e7desc struct {
	Seed    uint64 `json:"seed"`
	N       int    `json:"n"`
	Steps   int    `json:"steps"`
	Parent  string `json:"parent"` // rootkit | controller
	Race    bool   `json:"race_mode"`
	Perturb string `json:"perturb"`
}

var filteredKinds = []string{"subwf", "subff", "clonewf", "cloneff", "sub", "clonewf", "cloneff"}

// checkFiltered compares every ready filtered node with its filter applied to
// its parent's cache, and every seeded mirror with its node's cache.
func checkFiltered(r *Res, t *tree, what string, judgeMirrors bool) bool {
	return checkFilteredP(r, t, "C06", what, judgeMirrors)
}

func checkFilteredP(r *Res, t *tree, prop string, what string, judgeMirrors bool) bool {
	ok := true
	for _, n := range t.nodes {
		if n.cc == nil || n.kind == "root" {
			continue
		}
		if isClosed(n.done) || !isClosed(n.cc.Ready()) {
			continue
		}
		own, err := n.cc.Cache().List()
		if err != nil {
			continue
		}
		got := kit.SnapOf(own)
		if kit.SnapDup(own) {
			r.V(prop, "duplicate-key", "%s: %s cache lists a key twice", what, n)
			ok = false
		}
		if n.isFiltered() {
			pl, err := n.parent.cc.Cache().List()
			if err != nil {
				continue
			}
			want := n.filter.Accepted(pl)
			r.Add("filtered-node-checks", 1)
			if len(want) > 0 {
				r.Add("filtered-node-checks-nonempty", 1)
			}
			if !got.Equal(want) {
				r.V(prop, "filtered-cache-mismatch", "%s: %s (filter %s, depth %d, deferred=%v) holds %v; its parent holds %v, of which the filter accepts %v",
					what, n, n.filter, t.depth(n), n.deferred, got, kit.SnapOf(pl), want)
				ok = false
			}
		}
		if judgeMirrors && n.mir != nil {
			if n.mir.isSeeded() {
				r.Add("mirror-checks", 1)
				if ms := n.mir.snap(); !ms.Equal(got) {
					r.V(prop, "mirror-diverged", "%s: mirror of %s's own events is %v but its cache is %v; last events: %s", what, n, ms, got, tailEvents(n.mir.events(), 10))
					ok = false
				}
			} else {
				n.mir.seed(got)
			}
			n.mir.report(r, prop)
		}
	}
	return ok
}

func e7Case(seed uint64, n int, parent string, race bool) Case {
	rng := kit.NewRng(kit.Mix(seed, uint64(n)+707))
	steps := 60 + rng.Intn(120)
	targets := []string{"", "publisher|refiltering", "publisher|update:", "publisher|parent ready", "publisher|refilter:", "accept", "publisher|distribute"}
	tgt := targets[rng.Intn(len(targets))]
	planSeed := rng.U64()
	d := e7desc{seed, n, steps, parent, race, tgt}
	id := fmt.Sprintf("E7/%s/%d/%d/r%v", parent, seed, n, race)
	return Case{ID: id, Desc: d, Bubble: true, Run: func(r *Res) {
		plan := &kit.Plan{Seed: planSeed, PYield: 150, PSleep: 40, MaxSleep: 100 * time.Microsecond}
		if tgt != "" && tgt != "accept" {
			plan.Targets = map[string]time.Duration{tgt: 60 * time.Microsecond}
		}
		var core *kit.Core
		if !race {
			core = kit.NewCore(plan)
		}
		fam := filterFamily()
		if tgt == "accept" && core != nil {
			// a filter that yields inside Accept, i.e. inside the cache actor
			base := fam[2]
			fam = append(fam, kit.TFN("slow-l=x", func(o metav1Object) bool {
				core.Point("filter|accept")
				return base.Eval(o)
			}))
		}
		u := smallUniverse()
		var g *rootRig
		var cg *ctlRig
		var t *tree
		var srv *kit.Server
		if parent == "rootkit" {
			g = newRootRig(core, nil)
			t = newTree(g.root.Publisher())
		} else {
			srv = kit.NewPodServer(core)
			for i := 0; i < 3; i++ {
				u.mutate(rng, srv)
			}
			var err error
			cg, err = newCtlRig(core, srv, []time.Duration{time.Second, time.Minute}[rng.Intn(2)], nil)
			if err != nil {
				r.Inc(err.Error())
				return
			}
			t = newTree(cg.ctl)
		}
		barrier := func() { core.Barrier() }
		readyStep := rng.Intn(steps / 3)
		if rng.Chance(40) {
			readyStep = 0
		}
		if err := t.grow(rng, 3+rng.Intn(4), 3, fam, filteredKinds, true); err != nil {
			r.V("C06", "tree-build-error", "%v", err)
			return
		}
		sinceBarrier := 0
		failed := false
		for s := 0; s < steps && !failed; s++ {
			if s == readyStep && g != nil {
				g.root.MakeReady()
			}
			switch x := rng.Intn(100); {
			case x < 55: // parent mutation
				if g != nil {
					if isClosed(g.root.Publisher().Ready()) {
						if _, err := g.mutate(rng, u); err != nil {
							r.V("C06", "publish-error", "%v", err)
							failed = true
						}
					} else {
						// before readiness a controller only fills its cache
						ns, name := u.nss[rng.Intn(2)], u.names[rng.Intn(3)]
						g.root.Cache().Update(newEv(kcacheUpdate, kit.Pod(ns, name, strconv.Itoa(g.nextRV), u.labels[rng.Intn(len(u.labels))])))
						g.nextRV++
					}
				} else {
					u.mutate(rng, srv)
					if rng.Chance(10) {
						time.Sleep(time.Duration(rng.Intn(1500)) * time.Millisecond)
					}
				}
				sinceBarrier++
			case x < 85: // refilter a random filtered node
				var fn []*node
				for _, x := range t.nodes {
					if x.refilt != nil && !isClosed(x.done) {
						fn = append(fn, x)
					}
				}
				if len(fn) == 0 {
					continue
				}
				nd := fn[rng.Intn(len(fn))]
				f := fam[rng.Intn(len(fam))]
				if rng.Chance(15) {
					f = nd.filter // refilter to the current filter (rebuilt)
				}
				if err := nd.refilt(f); err != nil {
					r.V("C06", "refilter-error", "Refilter on live %s: %v", nd, err)
					failed = true
					break
				}
				nd.filter = f
				nd.supplied = true
				r.Add("refilters", 1)
				sinceBarrier += 6
			case x < 89:
				// close a plain subscriber while events may be in flight: nobody else
				// may notice (a fresh one replaces it)
				var subs []*node
				for _, x := range t.nodes {
					if x.kind == "sub" && !isClosed(x.done) {
						subs = append(subs, x)
					}
				}
				if len(subs) > 0 {
					subs[rng.Intn(len(subs))].closer()
					r.Add("mid-flow-closes", 1)
				}
				if len(t.nodes) < 16 {
					var pubs []*node
					for _, x := range t.nodes {
						if x.isController() && !isClosed(x.done) {
							pubs = append(pubs, x)
						}
					}
					if _, err := t.addChild(pubs[rng.Intn(len(pubs))], "sub", nil, true); err != nil {
						r.V("C06", "tree-build-error", "%v", err)
						failed = true
					}
				}
			case x < 94 && len(t.nodes) < 14:
				if err := t.grow(rng, 1, 3, fam, filteredKinds, true); err != nil {
					r.V("C06", "tree-build-error", "%v", err)
					failed = true
				}
			default:
				sinceBarrier = 100 // force a barrier
			}
			if sinceBarrier >= 18 {
				barrier()
				sinceBarrier = 0
				judge := core != nil && core.Overruns() == 0
				if !checkFiltered(r, t, fmt.Sprintf("step %d", s), judge) {
					failed = true
				}
				r.Add("barriers", 1)
			}
		}
		if g != nil {
			g.root.MakeReady()
		}
		barrier()
		if !failed {
			checkFiltered(r, t, "final", core != nil && core.Overruns() == 0)
		}
		for _, nd := range t.nodes {
			if nd.mir != nil && nd.mir.preReady() > 0 {
				r.V("C08", "event-before-ready", "%s received %d event(s) before its Ready() closed", nd, nd.mir.preReady())
			}
		}
		if core != nil {
			r.Set("signatures", strconv.FormatUint(core.Signature(), 16))
			for _, p := range core.Points() {
				r.Set("points", p)
			}
			r.Add("overruns", int64(core.Overruns()))
		}
		kinds := ""
		for _, nd := range t.nodes[1:] {
			kinds += nd.kind + "@" + strconv.Itoa(t.depth(nd)) + " "
		}
		if g != nil {
			g.stop(r, "C12")
		} else {
			cg.shutdown(r, "C12")
		}
		r.Key(id)
		r.Sample = map[string]interface{}{"desc": d, "tree": kinds}
	}}
}


// e7ReadyCase: the moment a parent becomes ready, many times over.  A chain of
// filtered clones with filtered subscriptions hanging off every level is built
// on a root that is not ready yet but already holds objects; then the root
// becomes ready.  Every node syncs from its parent at that moment; once all is
// quiet each must equal its filter applied to its parent.  Some events follow,
// and the check is repeated.
func e7ReadyCase(seed uint64, n int, race bool) Case {
	id := fmt.Sprintf("E7/ready-moment/%d/%d/r%v", seed, n, race)
	rounds := 40
	return Case{ID: id, Desc: map[string]interface{}{"seed": seed, "n": n, "rounds": rounds, "race_mode": race, "what": "trees built before the root is ready; the readiness transition repeated"}, Bubble: true, Run: func(r *Res) {
		rng := kit.NewRng(kit.Mix(seed, uint64(n)+770))
		fam := filterFamily()
		u := smallUniverse()
		for round := 0; round < rounds && !r.Failed(); round++ {
			var core *kit.Core
			if !race {
				core = kit.NewCore(&kit.Plan{Seed: rng.U64(), PYield: 200, PSleep: 40, MaxSleep: 60 * time.Microsecond})
			}
			g := newRootRig(core, nil)
			for i := 0; i < 5; i++ {
				ns, name := u.nss[rng.Intn(2)], u.names[rng.Intn(3)]
				g.root.Cache().Update(newEv(kcacheUpdate, kit.Pod(ns, name, strconv.Itoa(g.nextRV), u.labels[rng.Intn(len(u.labels))])))
				g.nextRV++
			}
			t := newTree(g.root.Publisher())
			parent := t.root
			ok := true
			for depth := 0; depth < 3 && ok; depth++ {
				cl, err := t.addChild(parent, []string{"clonewf", "cloneff"}[rng.Intn(2)], fam[[]int{0, 2, 5}[rng.Intn(3)]], true)
				if err != nil {
					r.V("C06", "tree-build-error", "%v", err)
					ok = false
					break
				}
				for k := 0; k < 3; k++ {
					if _, err := t.addChild(cl, []string{"subwf", "subff", "clonewf"}[k], fam[[]int{0, 2, 3, 5}[rng.Intn(4)]], true); err != nil {
						r.V("C06", "tree-build-error", "%v", err)
						ok = false
					}
				}
				parent = cl
			}
			if !ok {
				g.stop(r, "C12")
				return
			}
			for _, nd := range t.nodes {
				if nd.deferred {
					f := fam[[]int{0, 2, 3, 5}[rng.Intn(4)]]
					if nd.refilt(f) == nil {
						nd.filter, nd.supplied = f, true
					}
				}
			}
			g.root.MakeReady()
			core.Barrier()
			r.Add("ready-moments", 1)
			if !checkFilteredP(r, t, "C06", fmt.Sprintf("round %d, after the root became ready", round), false) {
				g.stop(r, "C12")
				return
			}
			for i := 0; i < 4; i++ {
				if _, err := g.mutate(rng, u); err != nil {
					r.V("C06", "publish-error", "%v", err)
					break
				}
			}
			core.Barrier()
			checkFilteredP(r, t, "C06", fmt.Sprintf("round %d, after 4 further events", round), false)
			g.stop(r, "C12")
		}
		r.Key(id)
		r.Sample = map[string]interface{}{"rounds": rounds}
	}}
}


// e7LateFilterCase: for-filter (deferred) subscriptions and clones whose first
// filter arrives LATE: their parent is ready and publishes a few hundred events
// (creates, deletes and re-creations over a handful of keys) before the first
// Refilter.  Once the filter is there and things are quiet, the node equals
// its filter applied to its parent, and stays so.
func e7LateFilterCase(seed uint64, n int) Case {
	id := fmt.Sprintf("E7/late-first-filter/%d/%d", seed, n)
	return Case{ID: id, Desc: map[string]interface{}{"seed": seed, "n": n, "what": "deferred nodes get their first filter after 120-320 parent events"}, Bubble: true, Run: func(r *Res) {
		rng := kit.NewRng(kit.Mix(seed, uint64(n)+780))
		core := kit.NewCore(&kit.Plan{Seed: rng.U64(), PYield: 120, PSleep: 20, MaxSleep: 40 * time.Microsecond})
		g := newRootRig(core, nil)
		defer g.stop(r, "C12")
		fam := filterFamily()
		u := smallUniverse()
		g.root.MakeReady()
		t := newTree(g.root.Publisher())
		var deferred []*node
		for _, k := range []string{"subff", "cloneff", "cloneff"} {
			nd, err := t.addChild(t.root, k, nil, true)
			if err != nil {
				r.V("C06", "tree-build-error", "%v", err)
				return
			}
			deferred = append(deferred, nd)
			if nd.isController() {
				if _, err := t.addChild(nd, "subwf", fam[[]int{0, 2}[rng.Intn(2)]], true); err != nil {
					r.V("C06", "tree-build-error", "%v", err)
					return
				}
			}
		}
		total := 120 + rng.Intn(200)
		for i := 0; i < total; i++ {
			if _, err := g.mutate(rng, u); err != nil {
				r.V("C06", "publish-error", "%v", err)
				return
			}
			if i%20 == 19 {
				g.barrier()
			}
		}
		for _, nd := range deferred {
			f := fam[[]int{0, 2, 3, 5}[rng.Intn(4)]]
			if err := nd.refilt(f); err != nil {
				r.V("C06", "refilter-error", "%v", err)
				return
			}
			nd.filter, nd.supplied = f, true
			r.Add("refilters", 1)
			// an event right behind the first filter
			g.mutate(rng, u)
		}
		g.barrier()
		if !checkFilteredP(r, t, "C06", fmt.Sprintf("first filter supplied after %d parent events", total), false) {
			return
		}
		for i := 0; i < 10; i++ {
			g.mutate(rng, u)
		}
		g.barrier()
		checkFilteredP(r, t, "C06", "10 events later", false)
		r.Add("late-first-filter-cases", 1)
		r.Key(id)
	}}
}

// e7CallerSliceCase: the caller builds NSName filters from ONE slice it keeps,
// edits and re-uses (spread form).  A filter, once handed over, is the filter of
// the ids it was built from: whatever the caller does to its slice afterwards,
// the node keeps mirroring THAT selection of its parent while parent events flow.
func e7CallerSliceCase(seed uint64, n int) Case {
	id := fmt.Sprintf("E7/filter-built-from-callers-slice/%d/%d", seed, n)
	return Case{ID: id, Desc: map[string]interface{}{"seed": seed, "n": n, "what": "NSName(ids...) from a slice the caller keeps editing while parent events flow"}, Bubble: true, Run: func(r *Res) {
		rng := kit.NewRng(kit.Mix(seed, uint64(n)+7700))
		core := kit.NewCore(&kit.Plan{Seed: rng.U64(), PYield: 100})
		g := newRootRig(core, nil)
		defer g.stop(r, "C12")
		g.root.MakeReady()
		keys := [][2]string{{"a", "x1"}, {"a", "x2"}, {"b", "y1"}, {"b", "y2"}, {"c", "z1"}, {"c", "x1"}}
		ver := 0
		churn := func() bool {
			for _, k := range keys {
				ver++
				typ := kcache.EventTypeUpdate
				if ver <= len(keys) {
					typ = kcache.EventTypeCreate
				}
				if _, err := g.apply(typ, kit.Pod(k[0], k[1], strconv.Itoa(ver), nil)); err != nil {
					r.V("C06", "publish-error", "%v", err)
					return false
				}
			}
			g.barrier()
			return true
		}
		if !churn() {
			return
		}
		layouts := [][]nsname.NSName{
			{nsname.New("a", "x1"), nsname.New("b", "")},
			{nsname.New("b", ""), nsname.New("a", "x1")},
			{nsname.New("a", "x1"), nsname.New("", "z1"), nsname.New("b", "y2"), nsname.New("c", "")},
			{nsname.New("", "x1"), nsname.New("a", "x2"), nsname.New("b", "")},
			{nsname.New("a", "x2"), nsname.New("c", "z1"), nsname.New("b", "")},
		}
		ids := append([]nsname.NSName(nil), layouts[n%len(layouts)]...)
		cur := kit.TNSName(append([]nsname.NSName(nil), ids...)...) // the reference keeps its own copy
		var cc kcache.CacheReader
		var refilt func(filter.Filter) error
		var closer func()
		if n%2 == 0 {
			sub, err := g.root.Publisher().SubscribeWithFilter(filter.NSName(ids...))
			if err != nil {
				r.V("C06", "tree-build-error", "%v", err)
				return
			}
			go func() {
				for range sub.Events() {
				}
			}()
			cc, refilt, closer = sub.Cache(), sub.Refilter, sub.Close
		} else {
			cl, err := g.root.Publisher().CloneWithFilter(filter.NSName(ids...))
			if err != nil {
				r.V("C06", "tree-build-error", "%v", err)
				return
			}
			cc, refilt, closer = cl.Cache(), cl.Refilter, cl.Close
		}
		defer closer()
		g.barrier()
		check := func(what string) bool {
			pl, _ := g.root.Cache().List()
			want := cur.Accepted(pl)
			got, _ := cacheSnap(cc)
			r.Add("caller-slice-mirror-checks", 1)
			if !got.Equal(want) {
				r.V("C06", "filtered-cache-mismatch", "%s: the node was given NSName(%s); its cache is %v, that filter applied to the parent's cache gives %v (the caller's slice is now %v)", what, cur, got, want, ids)
				return false
			}
			return true
		}
		if !check("after creation") || !churn() || !check("parent events after creation") {
			return
		}
		for round := 0; round < 4; round++ {
			// the caller edits its slice; the node's filter is still the one it was given
			i := rng.Intn(len(ids))
			ids[i] = []nsname.NSName{nsname.New("c", ""), nsname.New("a", "x2"), nsname.New("", "y1"), nsname.New("a", "")}[rng.Intn(4)]
			if !churn() || !check(fmt.Sprintf("round %d: caller edited ids[%d], no Refilter yet, parent events", round, i)) {
				return
			}
			f := filter.NSName(ids...)
			cur = kit.TNSName(append([]nsname.NSName(nil), ids...)...)
			if err := refilt(f); err != nil {
				r.V("C06", "refilter-error", "%v", err)
				return
			}
			g.barrier()
			if !check(fmt.Sprintf("round %d: Refilter(NSName(slice...))", round)) || !churn() || !check(fmt.Sprintf("round %d: parent events after the Refilter", round)) {
				return
			}
		}
		r.Add("caller-slice-cases", 1)
		r.Key(id)
	}}
}

func init() {
	register("E7", func(tier string, seed uint64) []Case {
		var cases []Case
		n := tierPick(tier, 300, 100000)
		for i := 0; i < n; i++ {
			cases = append(cases, e7Case(seed, i, "rootkit", i%8 == 7))
		}
		m := tierPick(tier, 60, 20000)
		for i := 0; i < m; i++ {
			cases = append(cases, e7Case(seed, i, "controller", false))
		}
		for i := 0; i < tierPick(tier, 32, 4000); i++ {
			cases = append(cases, e7ReadyCase(seed, i, i%4 == 3))
		}
		for i := 0; i < tierPick(tier, 24, 2000); i++ {
			cases = append(cases, e7LateFilterCase(seed, i))
		}
		for i := 0; i < tierPick(tier, 20, 1000); i++ {
			cases = append(cases, e7CallerSliceCase(seed, i))
		}
		return cases
	})
}
