package engines

// E15: list failures are fail-stop and reported; watch failures are never
// fatal (C14).  The watch half re-uses E5's enumerated cases.

import (
	"context"
	"errors"
	"fmt"
	metav1 "k8s.io/apimachinery/pkg/apis/meta/v1"
	"time"

	lifecycle "github.com/boz/go-lifecycle"
	"github.com/boz/kcache"

	"verifharness/kit"
)

type e15desc struct {
	Kind   string `json:"failure"`
	K      int    `json:"at_list"`
	Seed   uint64 `json:"seed"`
	Period string `json:"period"`
}

func e15Case(seed uint64, kind string, k int, v int) Case {
	id := fmt.Sprintf("E15/%s/k%d/%d/%d", kind, k, seed, v)
	P := []time.Duration{time.Second, 10 * time.Second}[v%2]
	d := e15desc{kind, k, seed, P.String()}
	return Case{ID: id, Desc: d, Bubble: true, Run: func(r *Res) {
		rng := kit.NewRng(kit.Mix(seed, uint64(k*100+v)+kit.HashStr(kind)))
		core := kit.NewCore(&kit.Plan{Seed: rng.U64(), PYield: 100, PSleep: 20, MaxSleep: 100 * time.Microsecond})
		srv := kit.NewPodServer(core)
		u := smallUniverse()
		for i := 0; i < 4; i++ {
			u.mutate(rng, srv)
		}
		lk := map[string]kit.ListFaultKind{"list-error": kit.ListErr, "non-list": kit.ListNonList, "non-objects": kit.ListNonObjects,
			"no-accessor": kit.ListNoAccessor, "nil-nil": kit.ListNilNil, "status-object": kit.ListStatus, "error-with-empty-list": kit.ListErrAndList,
			"list-error-canceled": kit.ListErr, "list-error-deadline": kit.ListErr}[kind]
		// errors that look like shutdown artefacts although nobody is shutting down
		var lerr error
		switch kind {
		case "list-error-canceled":
			lerr = []error{context.Canceled, fmt.Errorf("client rate limiter: %w", context.Canceled)}[v%2]
		case "list-error-deadline":
			lerr = []error{context.DeadlineExceeded, fmt.Errorf("http2: %w", context.DeadlineExceeded)}[v%2]
		}
		lat := []time.Duration{0, P / 3, 2 * P}[rng.Intn(3)]
		srv.ListPlan = func(i int) kit.ListFault {
			if i == k && kind != "close" && kind != "cancel" {
				return kit.ListFault{Kind: lk, Latency: lat, Err: lerr}
			}
			return kit.ListFault{}
		}
		g, err := newCtlRig(core, srv, P, filterFamily()[rng.Intn(3)*2])
		if err != nil {
			r.Inc("builder: " + err.Error())
			return
		}
		t := newTree(g.ctl)
		if err := t.grow(rng, 5+rng.Intn(4), 3, filterFamily(), childKinds, true); err != nil {
			// legitimate when the failing first list has already stopped the controller
			if !errors.Is(err, kcache.ErrNotRunning) || !waitCh(g.ctl.Done(), virtBound) {
				r.V("C14", "tree-build-error", "building the subscriber tree: %v (controller done: %v)", err, isClosed(g.ctl.Done()))
				g.shutdown(r, "C12")
				return
			}
			r.Add("tree-cut-short-by-failure", 1)
		}
		for _, n := range t.nodes {
			if n.deferred && rng.Bool() {
				n.refilt(filterFamily()[2])
			}
		}
		// mutations keep flowing until the failing list
		stop := make(chan struct{})
		mdone := make(chan struct{})
		go func() {
			defer close(mdone)
			for {
				select {
				case <-stop:
					return
				case <-time.After(P / 3):
					u.mutate(rng, srv)
				}
			}
		}()
		switch kind {
		case "close":
			time.Sleep(time.Duration(k) * P / 2)
			if !within(func() { g.ctl.Close() }) {
				r.V("C12", "close-hang", "Close() did not return")
			}
		case "cancel":
			time.Sleep(time.Duration(k) * P / 2)
			g.cancel()
		}
		ok := waitCh(g.ctl.Done(), time.Duration(k+3)*(P+P/5)+lat+10*time.Second)
		close(stop)
		<-mdone
		if !ok {
			r.V("C14", "not-fail-stop", "failure %s at list #%d: controller still running %v later (lists issued: %d)", kind, k, time.Duration(k+3)*(P+P/5)+lat+10*time.Second, len(srv.Lists()))
			g.shutdown(r, "C12")
			return
		}
		g.barrier()
		e := g.ctl.Error()
		switch kind {
		case "close":
			if e != nil {
				r.V("C14", "deliberate-close-reports-failure", "Error() after Close() = %v", e)
			}
		case "cancel":
			// the statement only fixes Close(); what Error() says after a context
			// cancellation is recorded, not judged (it may be nil, a chain ending in
			// context.Canceled, or a shutdown-induced ErrNotRunning from a component
			// that saw the cancellation first)
			switch {
			case e == nil:
				r.Set("error-after-cancel", "nil")
			case errors.Is(e, context.Canceled):
				r.Set("error-after-cancel", "context.Canceled chain")
			case errors.Is(e, kcache.ErrNotRunning):
				r.Set("error-after-cancel", "ErrNotRunning chain")
			default:
				r.V("C14", "cancel-reports-failure", "Error() after context cancellation = %v", e)
			}
		default:
			if e == nil {
				r.V("C14", "failure-not-reported", "failure %s at list #%d: Done() closed but Error() is nil", kind, k)
			} else if errors.Is(e, lifecycle.ErrRunning) {
				r.V("C14", "failure-not-reported", "failure %s at list #%d: Done() closed but Error() says still running", kind, k)
			} else if (kind == "list-error" || kind == "error-with-empty-list") && !errors.Is(e, kit.ErrInjected) {
				r.V("C14", "cause-lost", "failure %s at list #%d: Error() = %v does not carry the client's error", kind, k, e)
			} else if lerr != nil && !errors.Is(e, errors.Unwrap(lerr)) && !errors.Is(e, lerr) {
				r.V("C14", "cause-lost", "failure %s at list #%d: Error() = %v does not carry the client's error %v", kind, k, e, lerr)
			}
		}
		// subtree
		for _, n := range t.nodes[1:] {
			if !isClosed(n.done) {
				r.V("C14", "descendant-survives", "failure %s at list #%d: controller is done but %s is not", kind, k, n)
			}
			if n.mir != nil && !n.mir.isClosed() {
				r.V("C14", "descendant-events-open", "failure %s at list #%d: Events() of %s not closed", kind, k, n)
			}
		}
		if k == 1 && kind != "close" && kind != "cancel" {
			for _, n := range t.nodes {
				if n.cc != nil && isClosed(n.cc.Ready()) {
					r.V("C14", "ready-after-failed-first-list", "failure %s at the first list: %s became ready", kind, n)
					r.V("C08", "ready-after-failed-first-list", "failure %s at the first list: %s became ready", kind, n)
				}
				if n.handler != nil && len(n.handler.snapshot()) > 0 {
					r.V("C16", "callback-without-ready", "failure at the first list but monitor %s got %d callbacks", n, len(n.handler.snapshot()))
				}
			}
			r.Add("never-ready-checks", 1)
		}
		if gs := kit.Census(); len(gs) > 0 {
			r.V("C12", "goroutine-leak", "%d library goroutines remain after fail-stop: %v", len(gs), kit.CensusKeys(gs))
		}
		g.cancel()
		r.Add("failstop-checks", 1)
		r.Set("failure-kinds", fmt.Sprintf("%s@%d", kind, k))
		r.Key(id)
		r.Sample = map[string]interface{}{"desc": d, "error": fmt.Sprint(e), "nodes": len(t.nodes), "lists": len(srv.Lists())}
	}}
}

// e15BusyCloseCase: Close() while the controller is BUSY (a slow filter keeps it
// inside the application of a list, of a relist, or of a watch event).  A
// controller closed deliberately reports no failure, whatever it was doing.
func e15BusyCloseCase(seed uint64, n int) Case {
	when := []string{"during-relist", "during-first-list", "during-watch-event"}[n%3]
	id := fmt.Sprintf("E15/close-while-busy/%s/%d/%d", when, seed, n)
	return Case{ID: id, Desc: map[string]interface{}{"when": when, "n": n}, Bubble: true, Run: func(r *Res) {
		rng := kit.NewRng(kit.Mix(seed, uint64(n)+1590))
		core := kit.NewCore(&kit.Plan{Seed: rng.U64(), PYield: 100, PSleep: 20, MaxSleep: 60 * time.Microsecond})
		srv := kit.NewPodServer(core)
		for i := 0; i < 12; i++ {
			srv.Put(kit.Pod("n0", fmt.Sprintf("p%02d", i), "", map[string]string{"l": "x"}))
		}
		per := time.Duration(2+rng.Intn(4)) * time.Millisecond
		F := kit.TFN("slow-accept-all", func(metav1.Object) bool { core.Sleep(per); return true })
		P := time.Second
		g, err := newCtlRig(core, srv, P, F)
		if err != nil {
			r.Inc(err.Error())
			return
		}
		sub, _ := g.ctl.Subscribe()
		go func() {
			for range sub.Events() {
			}
		}()
		switch when {
		case "during-first-list":
			time.Sleep(per * time.Duration(1+rng.Intn(10))) // inside the first cache.sync
		case "during-relist":
			waitCh(g.ctl.Ready(), virtBound)
			for i := 0; i < 3000 && len(srv.Lists()) < 2+n%2; i++ {
				time.Sleep(time.Millisecond)
			}
			time.Sleep(per * time.Duration(1+rng.Intn(10)))
		case "during-watch-event":
			waitCh(g.ctl.Ready(), virtBound)
			for i := 0; i < 5; i++ {
				srv.Put(kit.Pod("n0", fmt.Sprintf("p%02d", i), "", map[string]string{"l": "y"}))
			}
			time.Sleep(per * time.Duration(1+rng.Intn(4)))
		}
		if !within(func() { g.ctl.Close() }) {
			r.V("C12", "close-hang", "Close() while the controller was busy (%s) did not return", when)
			g.cancel()
			return
		}
		if !waitCh(g.ctl.Done(), virtBound) {
			r.V("C12", "done-hang", "Close() returned but Done() is open")
			g.cancel()
			return
		}
		g.barrier()
		r.Add("failstop-checks", 1)
		if e := g.ctl.Error(); e != nil {
			r.V("C14", "deliberate-close-reports-failure", "Close() while the controller was busy (%s, slow filter %v per object): Error() = %v", when, per, e)
		}
		g.cancel()
		g.barrier()
		r.Key(id)
	}}
}

func init() {
	register("E15", func(tier string, seed uint64) []Case {
		var cases []Case
		nv := tierPick(tier, 3, 1000)
		for _, kind := range []string{"list-error", "non-list", "non-objects", "no-accessor", "nil-nil", "status-object", "error-with-empty-list", "close", "cancel", "list-error-canceled", "list-error-deadline"} {
			for k := 1; k <= 4; k++ {
				for v := 0; v < nv; v++ {
					cases = append(cases, e15Case(seed, kind, k, v))
				}
			}
		}
		// watch failures are never fatal: E5's enumeration (reports C14/watch-failure-fatal)
		nh := tierPick(tier, 1, 60)
		for h := 0; h < nh; h++ {
			hs := kit.Mix(seed, uint64(h)+99) % 100000
			for pos := 0; pos <= 12; pos += 2 {
				for _, kd := range e5Kinds {
					cases = append(cases, e5Case(hs, pos, kd, "", false))
				}
			}
		}
		for i := 0; i < tierPick(tier, 48, 960); i++ {
			cases = append(cases, eRetryExpiryCase("C14", seed, i, "list-error"))
		}
		for i := 0; i < tierPick(tier, 30, 600); i++ {
			cases = append(cases, e15BusyCloseCase(seed, i))
		}
		return cases
	})
}
