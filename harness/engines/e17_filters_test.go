package engines

// E17: filter equality is sound (C17), combinators implement boolean and
// label-selector semantics (C18), workload selection filters follow
// Kubernetes ownership semantics (C19).  No library goroutines: no bubble.

import (
	"fmt"
	"reflect"
	"sort"
	"strconv"
	"strings"

	"github.com/boz/kcache/filter"
	"github.com/boz/kcache/nsname"
	"github.com/boz/kcache/types/daemonset"
	"github.com/boz/kcache/types/deployment"
	"github.com/boz/kcache/types/event"
	"github.com/boz/kcache/types/ingress"
	"github.com/boz/kcache/types/job"
	"github.com/boz/kcache/types/pod"
	"github.com/boz/kcache/types/replicaset"
	"github.com/boz/kcache/types/replicationcontroller"
	"github.com/boz/kcache/types/service"
	"github.com/boz/kcache/types/statefulset"
	appsv1 "k8s.io/api/apps/v1"
	batchv1 "k8s.io/api/batch/v1"
	corev1 "k8s.io/api/core/v1"
	netv1beta1 "k8s.io/api/networking/v1beta1"
	metav1 "k8s.io/apimachinery/pkg/apis/meta/v1"
	"k8s.io/apimachinery/pkg/labels"

	"verifharness/kit"
)

var e17NS = []string{"n0", "n1", "n2"}
var e17Names = []string{"a", "b", "c"}

func e17LabelMaps() []map[string]string {
	var out []map[string]string
	for _, l := range []string{"", "x", "y", "z"} {
		for _, m := range []string{"", "1", "2", "3"} {
			mm := map[string]string{}
			if l != "" {
				mm["l"] = l
			}
			if m != "" {
				mm["m"] = m
			}
			if len(mm) == 0 {
				mm = nil
			}
			out = append(out, mm)
		}
	}
	// empty-string VALUES are legal and differ from an absent key
	out = append(out, map[string]string{"l": ""}, map[string]string{"l": "", "m": "1"}, map[string]string{"m": "", "l": "x"}, map[string]string{"k": "v", "n": "w"})
	return out
}

// e17Universe: pods over 3 ns x 3 names x 16 label maps (node name varies),
// services, events and a foreign kind.
func e17Universe() []metav1.Object {
	var out []metav1.Object
	nodes := []string{"", "node1", "node2"}
	i := 0
	for _, ns := range e17NS {
		for _, nm := range e17Names {
			for _, lm := range e17LabelMaps() {
				p := kit.Pod(ns, nm, "1", lm)
				p.Spec.NodeName = nodes[i%3]
				i++
				out = append(out, p)
			}
		}
	}
	sels := []map[string]string{nil, {}, {"l": "x"}, {"l": "x", "m": "1"}, {"m": "2"}, {"l": "y"}, {"canary": ""}, {"tier": ""}, {"l": "x", "canary": ""}}
	for _, ns := range e17NS[:2] {
		for ni, nm := range e17Names {
			for si, s := range sels {
				out = append(out, &corev1.Service{ObjectMeta: metav1.ObjectMeta{Namespace: ns, Name: nm, Labels: e17LabelMaps()[(ni*5+si*3)%len(e17LabelMaps())]},
					Spec: corev1.ServiceSpec{Selector: s}})
			}
		}
	}
	for _, kind := range []string{"Pod", "Service"} {
		for _, ns := range e17NS[:2] {
			for _, nm := range e17Names[:2] {
				out = append(out, &corev1.Event{ObjectMeta: metav1.ObjectMeta{Namespace: ns, Name: "ev-" + kind + "-" + nm, Labels: map[string]string{"l": "x"}},
					InvolvedObject: corev1.ObjectReference{Kind: kind, Namespace: ns, Name: nm}})
			}
		}
	}
	// events about CLUSTER-SCOPED objects: the reference has no namespace, the event lives in one
	for _, ens := range []string{"default", "n0"} {
		for _, nm := range []string{"a", "node1"} {
			out = append(out, &corev1.Event{ObjectMeta: metav1.ObjectMeta{Namespace: ens, Name: "ev-node-" + nm + "-" + ens},
				InvolvedObject: corev1.ObjectReference{Kind: "Node", Namespace: "", Name: nm}})
			out = append(out, &corev1.Event{ObjectMeta: metav1.ObjectMeta{Namespace: ens, Name: "ev-pod-nons-" + nm + "-" + ens},
				InvolvedObject: corev1.ObjectReference{Kind: "Pod", Namespace: "", Name: nm}})
		}
	}
	// cluster-scoped objects (no namespace), namespaces where one is the other plus "-suffix",
	// label keys and values with characters that have a meaning in a selector's text form
	for _, nm := range []string{"a", "node1", "node-1"} {
		out = append(out, &corev1.Node{ObjectMeta: metav1.ObjectMeta{Name: nm, Labels: map[string]string{"l": "x"}}})
	}
	for _, ns := range []string{"app", "app-staging", "app-staging-eu", "ap"} {
		for _, nm := range []string{"web", "a"} {
			out = append(out, kit.Pod(ns, nm, "1", map[string]string{"l": "x"}))
		}
	}
	for i, lm := range []map[string]string{{"a": "1", "b": "2"}, {"a": "1,b=2"}, {"a=b": "c"}, {"a": "b=c"}, {"a": "1,b"}, {"a": "1", "b": "z"}, {"a": "1"}} {
		out = append(out, kit.Pod("n0", fmt.Sprintf("odd%d", i), "1", lm))
	}
	out = append(out, &corev1.Secret{ObjectMeta: metav1.ObjectMeta{Namespace: "n0", Name: "a", Labels: map[string]string{"l": "x", "m": "1"}}})
	out = append(out, &corev1.Secret{ObjectMeta: metav1.ObjectMeta{Namespace: "n1", Name: "b"}})
	return out
}

func lsel(ml map[string]string, exprs ...metav1.LabelSelectorRequirement) *metav1.LabelSelector {
	return &metav1.LabelSelector{MatchLabels: ml, MatchExpressions: exprs}
}
func req(k string, op metav1.LabelSelectorOperator, vals ...string) metav1.LabelSelectorRequirement {
	return metav1.LabelSelectorRequirement{Key: k, Operator: op, Values: vals}
}

func e17Selectors() []*metav1.LabelSelector {
	return []*metav1.LabelSelector{
		nil,
		{},
		lsel(map[string]string{"l": "x"}),
		lsel(map[string]string{"l": "x", "m": "1"}),
		lsel(nil, req("l", metav1.LabelSelectorOpIn, "x", "y")),
		lsel(nil, req("l", metav1.LabelSelectorOpIn, "y", "x")),
		lsel(nil, req("l", metav1.LabelSelectorOpNotIn, "x")),
		lsel(nil, req("m", metav1.LabelSelectorOpExists)),
		lsel(nil, req("m", metav1.LabelSelectorOpDoesNotExist)),
		lsel(map[string]string{"m": "2"}, req("l", metav1.LabelSelectorOpNotIn, "z", "y")),
		// several requirements on the same key
		lsel(nil, req("l", metav1.LabelSelectorOpExists), req("l", metav1.LabelSelectorOpNotIn, "x")),
		lsel(nil, req("l", metav1.LabelSelectorOpNotIn, "x"), req("l", metav1.LabelSelectorOpExists)),
		lsel(nil, req("l", metav1.LabelSelectorOpIn, "x", "y"), req("l", metav1.LabelSelectorOpNotIn, "y")),
		lsel(map[string]string{"l": "x"}, req("l", metav1.LabelSelectorOpIn, "x", "z"), req("m", metav1.LabelSelectorOpDoesNotExist)),
		lsel(map[string]string{"l": ""}),
		lsel(nil, req("l", metav1.LabelSelectorOpIn, "", "x")),
	}
}

// ---- typed atoms with independent reference semantics -----------------------

func podOf(o metav1.Object) (*corev1.Pod, bool) { p, ok := o.(*corev1.Pod); return p, ok }

func tNode(names ...string) *kit.Term {
	nn := append([]string(nil), names...)
	return kit.TCustom("node("+strings.Join(nn, ",")+")",
		func() filter.Filter { return pod.NodeFilter(append([]string(nil), nn...)...) },
		func(o metav1.Object) bool {
			p, ok := podOf(o)
			if !ok {
				return false
			}
			for _, n := range nn {
				if n == p.Spec.NodeName {
					return true
				}
			}
			return false
		})
}

func tInvolved(kind, ns, name string) *kit.Term {
	return kit.TCustom(fmt.Sprintf("involved(%s,%s,%s)", kind, ns, name),
		func() filter.Filter { return event.InvolvedFilter(kind, ns, name) },
		func(o metav1.Object) bool {
			e, ok := o.(*corev1.Event)
			return ok && e.InvolvedObject.Kind == kind && e.InvolvedObject.Namespace == ns && e.InvolvedObject.Name == name
		})
}

func tSelMatch(target map[string]string) *kit.Term {
	return kit.TCustom("selmatch("+kit.LabelsString(target)+")",
		func() filter.Filter {
			var c map[string]string
			if target != nil {
				c = map[string]string{}
				for k, v := range target {
					c[k] = v
				}
			}
			return service.SelectorMatchFilter(c)
		},
		func(o metav1.Object) bool {
			s, ok := o.(*corev1.Service)
			if !ok || len(s.Spec.Selector) == 0 || len(target) == 0 {
				return false
			}
			for k, v := range s.Spec.Selector {
				if tv, ok := target[k]; !ok || tv != v {
					return false
				}
			}
			return true
		})
}

// ---- workloads ----------------------------------------------------------------

// wl is a kind-independent description of a workload.
type wl struct {
	ns, name string
	sel      *metav1.LabelSelector // label-selector kinds
	msel     map[string]string     // map-selector kinds (service, rc)
	tmpl     map[string]string     // template labels
	hasTmpl  bool
}

func (w wl) String() string {
	return fmt.Sprintf("%s/%s sel=%s msel=%v tmpl=%v", w.ns, w.name, kit.LSelString(w.sel), w.msel, w.tmpl)
}

var wlKinds = []string{"service", "rc", "rs", "deployment", "daemonset", "statefulset", "job"}

func wlMapKind(kind string) bool { return kind == "service" || kind == "rc" }

// buildPodsFilter builds the library's pods filter for the workloads, given in
// the order provided.
// buildPodsFilter builds the filter from fresh API objects.
func buildPodsFilter(kind string, ws []wl) filter.ComparableFilter {
	return podsFilterBuilder(kind, ws)()
}

// podsFilterBuilder creates the API objects ONCE and returns a function that
// calls PodsFilter on that same argument slice each time it is invoked (a
// caller that keeps its list and builds the filter again).
func podsFilterBuilder(kind string, ws []wl) func() filter.ComparableFilter {
	om := func(w wl) metav1.ObjectMeta { return metav1.ObjectMeta{Namespace: w.ns, Name: w.name} }
	pt := func(w wl) corev1.PodTemplateSpec {
		return corev1.PodTemplateSpec{ObjectMeta: metav1.ObjectMeta{Labels: w.tmpl}}
	}
	switch kind {
	case "service":
		var s []*corev1.Service
		for _, w := range ws {
			s = append(s, &corev1.Service{ObjectMeta: om(w), Spec: corev1.ServiceSpec{Selector: w.msel}})
		}
		return func() filter.ComparableFilter { return service.PodsFilter(s...) }
	case "rc":
		var s []*corev1.ReplicationController
		for _, w := range ws {
			rc := &corev1.ReplicationController{ObjectMeta: om(w), Spec: corev1.ReplicationControllerSpec{Selector: w.msel}}
			if w.hasTmpl {
				t := pt(w)
				rc.Spec.Template = &t
			}
			s = append(s, rc)
		}
		return func() filter.ComparableFilter { return replicationcontroller.PodsFilter(s...) }
	case "rs":
		var s []*appsv1.ReplicaSet
		for _, w := range ws {
			rs := &appsv1.ReplicaSet{ObjectMeta: om(w), Spec: appsv1.ReplicaSetSpec{Selector: w.sel, Template: pt(w)}}
			if len(w.name)%2 == 0 {
				rs.Spec.Replicas = new(int32) // scaled to zero: its pods may still be there
			}
			s = append(s, rs)
		}
		return func() filter.ComparableFilter { return replicaset.PodsFilter(s...) }
	case "deployment":
		var s []*appsv1.Deployment
		for _, w := range ws {
			dp := &appsv1.Deployment{ObjectMeta: om(w), Spec: appsv1.DeploymentSpec{Selector: w.sel, Template: pt(w)}}
			if len(w.name)%2 == 0 {
				dp.Spec.Replicas = new(int32)
			}
			s = append(s, dp)
		}
		return func() filter.ComparableFilter { return deployment.PodsFilter(s...) }
	case "daemonset":
		var s []*appsv1.DaemonSet
		for _, w := range ws {
			s = append(s, &appsv1.DaemonSet{ObjectMeta: om(w), Spec: appsv1.DaemonSetSpec{Selector: w.sel, Template: pt(w)}})
		}
		return func() filter.ComparableFilter { return daemonset.PodsFilter(s...) }
	case "statefulset":
		var s []*appsv1.StatefulSet
		for _, w := range ws {
			ss := &appsv1.StatefulSet{ObjectMeta: om(w), Spec: appsv1.StatefulSetSpec{Selector: w.sel, Template: pt(w)}}
			if len(w.name)%2 == 0 {
				ss.Spec.Replicas = new(int32)
			}
			s = append(s, ss)
		}
		return func() filter.ComparableFilter { return statefulset.PodsFilter(s...) }
	case "job":
		var s []*batchv1.Job
		for _, w := range ws {
			s = append(s, &batchv1.Job{ObjectMeta: om(w), Spec: batchv1.JobSpec{Selector: w.sel, Template: pt(w)}})
		}
		return func() filter.ComparableFilter { return job.PodsFilter(s...) }
	}
	panic("kind " + kind)
}

func subset(sel, labels map[string]string) bool {
	for k, v := range sel {
		if lv, ok := labels[k]; !ok || lv != v {
			return false
		}
	}
	return true
}

// wlMatches: does workload w select labels?  emptyMeansAll resolves the
// ambiguity of a non-nil but empty selector on non-service workloads.
func wlMatches(kind string, w wl, labels map[string]string, emptyMeansAll bool) bool {
	if kind == "service" {
		return len(w.msel) > 0 && subset(w.msel, labels)
	}
	if kind == "rc" {
		if len(w.msel) > 0 {
			return subset(w.msel, labels)
		}
		if w.msel != nil && emptyMeansAll {
			return true
		}
		return subset(w.tmpl, labels)
	}
	if w.sel == nil {
		return subset(w.tmpl, labels)
	}
	if len(w.sel.MatchLabels) == 0 && len(w.sel.MatchExpressions) == 0 {
		if emptyMeansAll {
			return true
		}
		return subset(w.tmpl, labels)
	}
	return kit.RefLabelSelector(w.sel, labels)
}

// refOwn: R-own.  sameNS=false drops the namespace condition (used only to
// classify a disagreement).
func refOwn(kind string, ws []wl, p metav1.Object, emptyMeansAll, sameNS bool) bool {
	if _, ok := p.(*corev1.Pod); !ok {
		// the filters are label/namespace based; the statement is about pods
		// only, other kinds are not judged
		return false
	}
	for _, w := range ws {
		if sameNS && w.ns != p.GetNamespace() {
			continue
		}
		if wlMatches(kind, w, p.GetLabels(), emptyMeansAll) {
			return true
		}
	}
	return false
}

func e17Workloads(kind string) []wl {
	var out []wl
	tmpls := []struct {
		m   map[string]string
		has bool
	}{{nil, false}, {map[string]string{"l": "x"}, true}}
	i := 0
	if wlMapKind(kind) {
		for _, ns := range e17NS[:2] {
			for _, ms := range []map[string]string{nil, {}, {"l": "x"}, {"l": "x", "m": "1"}, {"m": "2"}} {
				for _, t := range tmpls {
					out = append(out, wl{ns: ns, name: fmt.Sprintf("w%d", i), msel: ms, tmpl: t.m, hasTmpl: t.has})
					i++
				}
			}
		}
		return out
	}
	for _, ns := range e17NS[:2] {
		for _, s := range e17Selectors() {
			for _, t := range tmpls {
				out = append(out, wl{ns: ns, name: fmt.Sprintf("w%d", i), sel: s, tmpl: t.m, hasTmpl: t.has})
				i++
			}
		}
	}
	return out
}

// ---- C19 ------------------------------------------------------------------------

func e17OwnCase(kind string, chunk, chunks int, allTriples bool) Case {
	id := fmt.Sprintf("E17/own/%s/%d.%d", kind, chunk, chunks)
	return Case{ID: id, Desc: map[string]interface{}{"kind": kind, "chunk": chunk}, Run: func(r *Res) {
		ws := e17Workloads(kind)
		var pods []metav1.Object
		for _, o := range e17Universe() {
			if _, ok := o.(*corev1.Pod); ok && o.GetName() == "a" { // 3 ns x 16 label maps
				pods = append(pods, o)
			}
		}
		n := int64(0)
		idx := 0
		var sample []string
		try := func(set []wl) {
			idx++
			if idx%chunks != chunk {
				return
			}
			f := buildPodsFilter(kind, set)
			for _, p := range pods {
				got := f.Accept(p)
				a, b := refOwn(kind, set, p, true, true), refOwn(kind, set, p, false, true)
				n++
				if a != b {
					r.Add("ambiguous-empty-selector-evaluations", 1)
				}
				if got == a || got == b {
					if got {
						r.Add("accepting-evaluations", 1)
					}
					continue
				}
				cls := kind + ":rejects-owned"
				if got {
					cls = kind + ":accepts-nonmatching"
					if refOwn(kind, set, p, true, false) || refOwn(kind, set, p, false, false) {
						cls = kind + ":accepts-cross-namespace"
					}
				}
				var wd []string
				for _, w := range set {
					wd = append(wd, w.String())
				}
				r.V("C19", cls, "%s.PodsFilter(%s).Accept(pod %s/%s labels{%s}) = %v, the ownership predicate says %v", kind, strings.Join(wd, " | "), p.GetNamespace(), p.GetName(), kit.LabelsString(p.GetLabels()), got, a)
			}
			if len(sample) < 2 && len(set) == 2 {
				sample = append(sample, fmt.Sprintf("%v", set))
			}
		}
		try(nil)
		for i := range ws {
			try([]wl{ws[i]})
		}
		for i := range ws {
			for j := range ws {
				if i != j {
					try([]wl{ws[i], ws[j]})
				}
			}
		}
		// triples over a reduced workload list (every 3rd), all orders
		var red []wl
		step := 3
		if allTriples {
			step = 1
		}
		for i := 0; i < len(ws); i += step {
			red = append(red, ws[i])
		}
		for i := range red {
			for j := range red {
				for k := range red {
					if i != j && j != k && i != k {
						try([]wl{red[i], red[j], red[k]})
					}
				}
			}
		}
		r.Evals = n
		r.Count = n
		r.Add("ownership-evaluations", n)
		r.Sample = map[string]interface{}{"kind": kind, "workloads": len(ws), "pods": len(pods), "example_sets": sample}
	}}
}

func e17MiscOwnCase() Case {
	return Case{ID: "E17/own/ingress-node-involved-selmatch", Desc: "ingress services filter, node / involved-object / selector-match filters", Run: func(r *Res) {
		uni := e17Universe()
		n := int64(0)
		// ingress -> services
		// "" = a path whose backend names no service (a resource backend): first, middle, last
		backends := [][]string{nil, {"a"}, {"a", "b"}, {""}, {"c", ""}, {"a", "b", "c"}, {"", "a"}, {"a", "", "b"}, {"", "", "c"}}
		var ings []*netv1beta1.Ingress
		for _, ns := range e17NS[:2] {
			for bi, be := range backends {
				for _, def := range []string{"", "b"} {
					ing := &netv1beta1.Ingress{ObjectMeta: metav1.ObjectMeta{Namespace: ns, Name: fmt.Sprintf("i%d%s", bi, def)}}
					if def != "" {
						ing.Spec.Backend = &netv1beta1.IngressBackend{ServiceName: def}
					}
					if be != nil {
						rule := netv1beta1.IngressRule{}
						rule.HTTP = &netv1beta1.HTTPIngressRuleValue{}
						for _, b := range be {
							rule.HTTP.Paths = append(rule.HTTP.Paths, netv1beta1.HTTPIngressPath{Backend: netv1beta1.IngressBackend{ServiceName: b}})
						}
						ing.Spec.Rules = append(ing.Spec.Rules, rule, netv1beta1.IngressRule{}) // second rule without HTTP
					}
					ings = append(ings, ing)
				}
			}
		}
		refIng := func(set []*netv1beta1.Ingress, o metav1.Object) bool {
			for _, ing := range set {
				if ing.Namespace != o.GetNamespace() {
					continue
				}
				if ing.Spec.Backend != nil && ing.Spec.Backend.ServiceName != "" && ing.Spec.Backend.ServiceName == o.GetName() {
					return true
				}
				for _, ru := range ing.Spec.Rules {
					if ru.HTTP == nil {
						continue
					}
					for _, p := range ru.HTTP.Paths {
						if p.Backend.ServiceName != "" && p.Backend.ServiceName == o.GetName() {
							return true
						}
					}
				}
			}
			return false
		}
		var svcs []metav1.Object
		for _, o := range uni {
			if _, ok := o.(*corev1.Service); ok {
				svcs = append(svcs, o)
			}
		}
		chk := func(set []*netv1beta1.Ingress) {
			f := ingress.ServicesFilter(set...)
			for _, s := range svcs {
				n++
				if got, want := f.Accept(s), refIng(set, s); got != want {
					var names []string
					for _, i := range set {
						names = append(names, i.Namespace+"/"+i.Name)
					}
					cls := "ingress:rejects-backend"
					if got {
						cls = "ingress:accepts-non-backend"
					}
					r.V("C19", cls, "ingress.ServicesFilter(%v).Accept(service %s/%s) = %v, expected %v", names, s.GetNamespace(), s.GetName(), got, want)
				}
			}
		}
		chk(nil)
		for i := range ings {
			chk(ings[i : i+1])
			for j := range ings {
				if i < j {
					chk([]*netv1beta1.Ingress{ings[i], ings[j]})
				}
			}
		}
		// node / involved / selector-match against every object incl. foreign kinds
		var atoms []*kit.Term
		atoms = append(atoms, tNode(), tNode("node1"), tNode("node1", "node2"), tNode(""), tNode("nope"))
		for _, k := range []string{"Pod", "Service", "Node"} {
			for _, ns := range e17NS[:2] {
				for _, nm := range e17Names[:2] {
					atoms = append(atoms, tInvolved(k, ns, nm))
				}
			}
		}
		atoms = append(atoms, tInvolved("", "", ""))
		for _, t := range []map[string]string{nil, {}, {"l": "x"}, {"l": "x", "m": "1"}, {"m": "2", "l": "y"}, {"l": "x", "m": "1", "z": "9"}} {
			atoms = append(atoms, tSelMatch(t))
		}
		for _, a := range atoms {
			f := a.Build()
			for _, o := range uni {
				n++
				if got, want := f.Accept(o), a.Eval(o); got != want {
					r.V("C19", "typed-atom:"+strings.SplitN(a.Name, "(", 2)[0], "%s.Accept(%T %s/%s) = %v, expected %v", a.Name, o, o.GetNamespace(), o.GetName(), got, want)
				}
			}
		}
		// InvolvedObjectFilter derives kind/ns/name from an object
		p := kit.Pod("n0", "a", "1", nil)
		p.Kind = "Pod"
		fo := event.InvolvedObjectFilter(p)
		for _, o := range uni {
			n++
			if got, want := fo.Accept(o), tInvolved("Pod", "n0", "a").Eval(o); got != want {
				r.V("C19", "typed-atom:involved-object", "InvolvedObjectFilter(pod n0/a).Accept(%T %s/%s) = %v, expected %v", o, o.GetNamespace(), o.GetName(), got, want)
			}
		}
		r.Evals = n
		r.Count = n
		r.Add("ownership-evaluations", n)
		r.Sample = map[string]interface{}{"ingresses": len(ings), "services": len(svcs), "typed_atoms": len(atoms), "objects": len(uni)}
	}}
}

// ---- C17 / C18 ----------------------------------------------------------------

func e17Atoms() []*kit.Term {
	var at []*kit.Term
	at = append(at, kit.TNull(), kit.TAll())
	ids := func(s ...string) []nsname.NSName {
		var out []nsname.NSName
		for _, x := range s {
			p := strings.SplitN(x, "/", 2)
			out = append(out, nsname.New(p[0], p[1]))
		}
		return out
	}
	for _, s := range [][]string{{}, {"n0/a"}, {"n0/a", "n1/b"}, {"n1/b", "n0/a"}, {"n0/"}, {"/a"}, {"n0/", "/b"}, {"n0/a", "n1/"}, {"n1/", "n0/a"}, {"n2/c", "n2/c"}, {"n0/", "n1/", "n2/"}} {
		at = append(at, kit.TNSName(ids(s...)...))
	}
	for _, m := range []map[string]string{nil, {}, {"l": "x"}, {"l": "y"}, {"m": "1"}, {"l": "x", "m": "1"}, {"l": "z", "m": "3"}, {"l": ""}, {"l": "", "m": "1"}, {"m": ""}} {
		at = append(at, kit.TLabels(m))
	}
	for _, m := range []map[string]string{{}, {"l": "x"}, {"l": "x", "m": "1"}, {"l": ""}} {
		at = append(at, kit.TSelector(m))
	}
	// Labels() does not validate its map: keys/values containing ',' or '=' are legal inputs,
	// and their text form collides with that of other selectors
	for _, m := range []map[string]string{{"a": "1", "b": "2"}, {"a": "1,b=2"}, {"a=b": "c"}, {"a": "b=c"}, {"a": "1,b"}} {
		at = append(at, kit.TLabels(m))
	}
	at = append(at, kit.TLSel(lsel(map[string]string{"a": "1"}, req("b", metav1.LabelSelectorOpExists))))
	// NSName over namespaces that are prefixes of one another, and over cluster-scoped names
	at = append(at, kit.TNSName(ids("app/web", "app-staging/web")...), kit.TNSName(ids("app-staging/web", "app/web", "app-staging-eu/a")...),
		kit.TNSName(ids("ap/a", "app/a", "app-staging/a", "app-staging-eu/web")...), kit.TNSName(ids("/node-1")...), kit.TNSName(ids("/node1", "n0/")...),
		kit.TNSName(ids("/a")...))
	at = append(at, tInvolved("Node", "", "a"), tInvolved("Node", "", "node1"), tInvolved("Pod", "default", "a"), tInvolved("Node", "default", "node1"))
	// selectors that are not built from a label set: the zero selector of every flavour,
	// the nothing selector, parsed ones
	psel := func(name string, mk func() labels.Selector, eval func(map[string]string) bool) *kit.Term {
		return kit.TCustom("selector("+name+")", func() filter.Filter { return filter.Selector(mk()) }, func(o metav1.Object) bool { return eval(o.GetLabels()) })
	}
	mustParse := func(x string) labels.Selector {
		sel, err := labels.Parse(x)
		if err != nil {
			panic(err)
		}
		return sel
	}
	at = append(at,
		psel("NewSelector()", func() labels.Selector { return labels.NewSelector() }, func(map[string]string) bool { return true }),
		psel("Everything()", func() labels.Selector { return labels.Everything() }, func(map[string]string) bool { return true }),
		psel("Nothing()", func() labels.Selector { return labels.Nothing() }, func(map[string]string) bool { return false }),
		psel("Parse('')", func() labels.Selector { return mustParse("") }, func(map[string]string) bool { return true }),
		psel("Parse('l=x')", func() labels.Selector { return mustParse("l=x") }, func(l map[string]string) bool { return l["l"] == "x" }),
		psel("Parse('l=')", func() labels.Selector { return mustParse("l=") }, func(l map[string]string) bool { v, ok := l["l"]; return ok && v == "" }),
		psel("Parse('!l')", func() labels.Selector { return mustParse("!l") }, func(l map[string]string) bool { _, ok := l["l"]; return !ok }),
		psel("Parse('m>1')", func() labels.Selector { return mustParse("m>1") }, func(l map[string]string) bool { v, err := strconv.Atoi(l["m"]); return err == nil && v > 1 }),
		psel("Parse('m<2')", func() labels.Selector { return mustParse("m<2") }, func(l map[string]string) bool { v, err := strconv.Atoi(l["m"]); return err == nil && v < 2 }),
		psel("Parse('l>0')", func() labels.Selector { return mustParse("l>0") }, func(l map[string]string) bool { v, err := strconv.Atoi(l["l"]); return err == nil && v > 0 }))
	for _, s := range e17Selectors() {
		at = append(at, kit.TLSel(s))
	}
	at = append(at,
		kit.TFN("ns=n0", func(o metav1.Object) bool { return o.GetNamespace() == "n0" }),
		kit.TFN("has-l", func(o metav1.Object) bool { _, ok := o.GetLabels()["l"]; return ok }),
		kit.TFN("true", func(metav1.Object) bool { return true }))
	// function filters produced by ONE function literal with different captured values
	// (they share their code pointer and nothing else)
	for _, ns := range []string{"n0", "n1", "app"} {
		ns := ns
		at = append(at, kit.TFN("in-namespace("+ns+")", func(o metav1.Object) bool { return o.GetNamespace() == ns }))
	}
	at = append(at, tNode(), tNode("node1"), tNode("node2", "node1"), tNode("node1", "node2"), tNode(""))
	at = append(at, tInvolved("Pod", "n0", "a"), tInvolved("Pod", "n0", "b"), tInvolved("Service", "n0", "a"), tInvolved("Pod", "n1", "a"))
	at = append(at, tSelMatch(nil), tSelMatch(map[string]string{"l": "x"}), tSelMatch(map[string]string{"l": "x", "m": "1"}), tSelMatch(map[string]string{"m": "1", "l": "x"}))
	at = append(at, tSelMatch(map[string]string{"canary": ""}), tSelMatch(map[string]string{"tier": ""}), tSelMatch(map[string]string{"app": "web"}), tSelMatch(map[string]string{"l": "x", "canary": ""}), tSelMatch(map[string]string{"l": "x", "tier": ""}))
	// workload filters as atoms, incl. permutations of the same sources
	for _, kind := range wlKinds {
		ws := e17Workloads(kind)
		pick := [][]int{{}, {2}, {2, 13}, {13, 2}, {4, 9, 14}, {14, 4, 9}, {3}, {12}}
		for _, p := range pick {
			var set []wl
			for _, i := range p {
				set = append(set, ws[i%len(ws)])
			}
			k, s := kind, set
			at = append(at, kit.TCustom(fmt.Sprintf("%s.pods%v", kind, p),
				func() filter.Filter { return buildPodsFilter(k, s) },
				func(o metav1.Object) bool { return false /* reference not needed for C17; C19 judges these */ }))
		}
	}
	return at
}

func isWorkloadAtom(t *kit.Term) bool { return t.Op == "custom" && strings.Contains(t.Name, ".pods[") }

// e17Terms: all terms of depth <= 2 over the atoms (binary combinations over a
// core subset).
func e17Terms() []*kit.Term {
	atoms := e17Atoms()
	terms := append([]*kit.Term(nil), atoms...)
	for _, a := range atoms {
		terms = append(terms, kit.TNot(a))
	}
	terms = append(terms, kit.TAnd(), kit.TOr())
	for _, a := range atoms {
		terms = append(terms, kit.TAnd(a), kit.TOr(a))
	}
	var core []*kit.Term
	for i, a := range atoms {
		if i%4 == 0 || a.Op == "fn" {
			core = append(core, a)
		}
	}
	for _, a := range core {
		for _, b := range core {
			terms = append(terms, kit.TAnd(a, b), kit.TOr(a, b))
		}
	}
	// every ordered pair (and some triples) of selector-like atoms under one And / Or: a
	// constructor that merges sibling selectors must keep the meaning, whatever the order
	var sels []*kit.Term
	for _, a := range atoms {
		if a.Op == "labels" || a.Op == "selector" || a.Op == "lsel" || strings.HasPrefix(a.Name, "selector(") {
			sels = append(sels, a)
		}
	}
	for i, a := range sels {
		for j, b := range sels {
			terms = append(terms, kit.TAnd(a, b), kit.TOr(a, b))
			if (i+j)%5 == 0 {
				c := sels[(i*3+j*7+1)%len(sels)]
				terms = append(terms, kit.TAnd(a, b, c), kit.TAnd(c, a, b), kit.TOr(a, c, b))
			}
		}
	}
	// nested composites of the same and of the other kind, in first, middle and
	// last position, over a small core (a constructor that flattens or reorders
	// its children must not change the meaning)
	var small []*kit.Term
	for i, a := range atoms {
		if i%11 == 2 || a.Op == "labels" && len(a.Labels) == 1 {
			small = append(small, a)
		}
	}
	if len(small) > 7 {
		small = small[:7]
	}
	for _, a := range small {
		for _, b := range small {
			for _, c := range small {
				if a == b || b == c || a == c {
					continue
				}
				terms = append(terms,
					kit.TOr(kit.TOr(a, b), c), kit.TOr(c, kit.TOr(a, b)), kit.TAnd(kit.TAnd(a, b), c), kit.TAnd(c, kit.TAnd(a, b)),
					kit.TOr(kit.TAnd(a, b), c), kit.TAnd(kit.TOr(a, b), c), kit.TOr(kit.TOr(a, b), kit.TOr(b, c), a), kit.TAnd(kit.TAnd(a, b), kit.TAnd(b, c), a))
			}
		}
	}
	return terms
}

func e17RandomTerm(rng *kit.Rng, atoms []*kit.Term, depth int) *kit.Term {
	if depth <= 1 || rng.Chance(25) {
		return atoms[rng.Intn(len(atoms))]
	}
	switch rng.Intn(3) {
	case 0:
		return kit.TNot(e17RandomTerm(rng, atoms, depth-1))
	case 1:
		n := rng.Intn(4)
		var ks []*kit.Term
		for i := 0; i < n; i++ {
			ks = append(ks, e17RandomTerm(rng, atoms, depth-1))
		}
		return kit.TAnd(ks...)
	default:
		n := rng.Intn(4)
		var ks []*kit.Term
		for i := 0; i < n; i++ {
			ks = append(ks, e17RandomTerm(rng, atoms, depth-1))
		}
		return kit.TOr(ks...)
	}
}

type builtTerm struct {
	t    *kit.Term
	f    filter.Filter
	bits []bool
}

func acceptBits(f filter.Filter, uni []metav1.Object) []bool {
	b := make([]bool, len(uni))
	for i, o := range uni {
		b[i] = f.Accept(o)
	}
	return b
}

func eqComparable(a, b filter.Filter) (bool, bool) {
	fe := filter.FiltersEqual(a, b)
	eq := false
	if ca, ok := a.(filter.ComparableFilter); ok {
		eq = ca.Equals(b)
	}
	return fe, eq
}

// e17Semantics (C18): Accept vs the reference evaluator, purity, argument
// immutability.
func e17SemanticsCase(chunk, chunks int, seed uint64, depth3 int) Case {
	id := fmt.Sprintf("E17/semantics/%d.%d", chunk, chunks)
	return Case{ID: id, Desc: map[string]interface{}{"chunk": chunk, "depth3_samples": depth3}, Run: func(r *Res) {
		uni := e17Universe()
		terms := e17Terms()
		rng := kit.NewRng(kit.Mix(seed, uint64(chunk)+1717))
		atoms := e17Atoms()
		for i := 0; i < depth3; i++ {
			terms = append(terms, e17RandomTerm(rng, atoms, 3))
		}
		n := int64(0)
		var sample []string
		if chunk == 0 {
			// Accept is a function of the object only: what the caller does to the argument
			// it built the filter from, after building it, changes nothing
			for si, sel := range e17Selectors() {
				if sel == nil {
					continue
				}
				mine := sel.DeepCopy()
				f := filter.LabelSelector(mine)
				if mine.MatchLabels == nil {
					mine.MatchLabels = map[string]string{}
				}
				mine.MatchLabels["l"] = "changed-afterwards"
				for i := range mine.MatchExpressions {
					if len(mine.MatchExpressions[i].Values) > 0 {
						mine.MatchExpressions[i].Values[0] = "changed-afterwards"
					}
					mine.MatchExpressions[i].Key = "other"
				}
				ref := kit.TLSel(sel)
				for _, o := range uni {
					n++
					if got, want := f.Accept(o), ref.Eval(o); got != want {
						r.V("C18", "accept-wrong:lsel", "LabelSelector(selector #%d) was built and then the caller changed its selector struct: Accept(%T %s/%s labels{%s}) = %v, label-selector semantics of the selector it was built from say %v", si, o, o.GetNamespace(), o.GetName(), kit.LabelsString(o.GetLabels()), got, want)
						break
					}
				}
			}
		}
		for ti, t := range terms {
			if ti%chunks != chunk || isWorkloadAtom(t) || hasWorkload(t) {
				continue
			}
			argsBefore := t.String()
			f := t.Build()
			bits := acceptBits(f, uni)
			for i, o := range uni {
				n++
				if want := t.Eval(o); bits[i] != want {
					r.V("C18", "accept-wrong:"+t.Op, "%s.Accept(%T %s/%s labels{%s}) = %v, reference semantics say %v", t, o, o.GetNamespace(), o.GetName(), kit.LabelsString(o.GetLabels()), bits[i], want)
					break
				}
			}
			// purity: second pass in reverse order gives the same answers
			for i := len(uni) - 1; i >= 0; i-- {
				if f.Accept(uni[i]) != bits[i] {
					r.V("C18", "accept-not-pure", "%s.Accept gave different answers for the same object %s/%s", t, uni[i].GetNamespace(), uni[i].GetName())
					break
				}
			}
			if t.String() != argsBefore {
				r.V("C18", "arguments-mutated", "building/evaluating %s changed its arguments to %s", argsBefore, t)
			}
			if t.Depth() > 1 {
				r.Add("composite-terms", 1)
			}
			if len(sample) < 3 && ti%97 == 3 {
				sample = append(sample, t.String())
			}
		}
		r.Evals = n
		r.Count = n
		r.Add("accept-evaluations", n)
		r.Sample = map[string]interface{}{"objects": len(uni), "terms_total": len(terms), "examples": sample}
	}}
}

func hasWorkload(t *kit.Term) bool {
	if isWorkloadAtom(t) {
		return true
	}
	for _, k := range t.Kids {
		if hasWorkload(k) {
			return true
		}
	}
	return false
}

// e17Equality (C17).
func e17EqualityCase(chunk, chunks int, seed uint64, depth3Pairs int) Case {
	id := fmt.Sprintf("E17/equality/%d.%d", chunk, chunks)
	return Case{ID: id, Desc: map[string]interface{}{"chunk": chunk, "depth3_pairs": depth3Pairs}, Run: func(r *Res) {
		uni := e17Universe()
		terms := e17Terms()
		built := make([]builtTerm, len(terms))
		for i, t := range terms {
			f := t.Build()
			built[i] = builtTerm{t, f, acceptBits(f, uni)}
		}
		same := func(a, b []bool) (bool, int) {
			for i := range a {
				if a[i] != b[i] {
					return false, i
				}
			}
			return true, -1
		}
		n, equal := int64(0), int64(0)
		var sample []string
		judge := func(a, b builtTerm) {
			n++
			fe, eq := eqComparable(a.f, b.f)
			fe2, eq2 := eqComparable(b.f, a.f)
			for _, v := range []struct {
				name string
				val  bool
			}{{"FiltersEqual(a,b)", fe}, {"a.Equals(b)", eq}, {"FiltersEqual(b,a)", fe2}, {"b.Equals(a)", eq2}} {
				if !v.val {
					continue
				}
				if ok, i := same(a.bits, b.bits); !ok {
					o := uni[i]
					r.V("C17", "unsound-equality", "%s is true for a=%s, b=%s, but a.Accept=%v and b.Accept=%v for %T %s/%s labels{%s}", v.name, a.t, b.t, a.bits[i], b.bits[i], o, o.GetNamespace(), o.GetName(), kit.LabelsString(o.GetLabels()))
					return
				}
			}
			if fe || eq {
				equal++
				if len(sample) < 4 && a.t.String() != b.t.String() {
					sample = append(sample, a.t.String()+" == "+b.t.String())
				}
			}
		}
		for i := range built {
			if i%chunks != chunk {
				continue
			}
			for j := range built {
				judge(built[i], built[j])
			}
			// rebuilt from the same arguments => equal (comparable terms)
			t := built[i].t
			if t.Comparable() {
				f2 := t.Build()
				r.Add("rebuilt-checks", 1)
				if !filter.FiltersEqual(built[i].f, f2) {
					r.V("C17", "rebuilt-not-equal", "%s built twice from the same arguments does not compare equal", t)
				}
			}
		}
		// a caller that keeps its list of workloads and builds the filter from that same
		// slice again (and again): every build compares equal to the first and to one built
		// from fresh objects, and accepts the same objects
		if chunk == 0 {
			for _, kind := range wlKinds {
				ws := e17Workloads(kind)
				for _, pk := range [][]int{{0, 4, 9}, {4, 0, 9}, {9, 4, 0}, {0, 2}, {2, 0}, {5, 1, 3, 0, 7}, {1}, {12, 0, 2, 13}} {
					var set []wl
					for _, i := range pk {
						set = append(set, ws[i%len(ws)])
					}
					build := podsFilterBuilder(kind, set)
					fresh := buildPodsFilter(kind, set)
					fb := acceptBits(fresh, uni)
					for rep := 0; rep < 3; rep++ {
						f := build()
						r.Add("rebuilt-checks", 1)
						if !filter.FiltersEqual(f, fresh) || !filter.FiltersEqual(fresh, f) {
							r.V("C17", "rebuilt-not-equal", "%s.PodsFilter built for the %d. time from the caller's own slice of workloads %v does not compare equal to the filter built from the same workloads freshly", kind, rep+1, pk)
							break
						}
						if ok, i := same(acceptBits(f, uni), fb); !ok {
							o := uni[i]
							r.V("C17", "unsound-equality", "%s.PodsFilter built for the %d. time from the caller's own slice %v compares equal to the fresh one but disagrees on %T %s/%s", kind, rep+1, pk, o, o.GetNamespace(), o.GetName())
							break
						}
					}
				}
			}
		}
		// order independence for sources whose namespace/name pairs collide when glued
		// together without a separator ("team1"+"0-db" == "team"+"10-db"), in every order
		if chunk == 0 {
			for _, kind := range wlKinds {
				ws := e17Workloads(kind)
				a, b, c := ws[2%len(ws)], ws[5%len(ws)], ws[7%len(ws)]
				a.ns, a.name = "team1", "0-db"
				b.ns, b.name = "team", "10-db"
				c.ns, c.name = "tea", "m10-db"
				ref := buildPodsFilter(kind, []wl{a, b, c})
				for _, perm := range [][]wl{{a, c, b}, {b, a, c}, {b, c, a}, {c, a, b}, {c, b, a}} {
					f := buildPodsFilter(kind, perm)
					r.Add("permutation-checks", 1)
					if !filter.FiltersEqual(ref, f) || !filter.FiltersEqual(f, ref) {
						r.V("C17", "permutation-not-equal", "%s.PodsFilter over the sources team1/0-db, team/10-db, tea/m10-db does not compare equal to the same sources given in another order", kind)
						break
					}
				}
			}
		}
		// many sources (more than small-slice sorting fast paths handle), the same names in
		// two namespaces, given in several orders
		if chunk == 0 {
			for _, kind := range wlKinds {
				ws := e17Workloads(kind)
				var many []wl
				for i := 0; i < 15; i++ {
					w := ws[(i*3+1)%len(ws)]
					w.ns, w.name = []string{"n0", "n1"}[i%2], fmt.Sprintf("job-%d", i/2)
					many = append(many, w)
				}
				ref := buildPodsFilter(kind, many)
				for _, how := range []string{"reversed", "rotated", "interleaved"} {
					perm := append([]wl(nil), many...)
					switch how {
					case "reversed":
						for i, j := 0, len(perm)-1; i < j; i, j = i+1, j-1 {
							perm[i], perm[j] = perm[j], perm[i]
						}
					case "rotated":
						perm = append(perm[5:], perm[:5]...)
					case "interleaved":
						var a, b []wl
						for i, w := range perm {
							if i%2 == 0 {
								a = append(a, w)
							} else {
								b = append(b, w)
							}
						}
						perm = append(b, a...)
					}
					r.Add("permutation-checks", 1)
					if f := buildPodsFilter(kind, perm); !filter.FiltersEqual(ref, f) || !filter.FiltersEqual(f, ref) {
						r.V("C17", "permutation-not-equal", "%s.PodsFilter over 15 sources (same names in two namespaces) does not compare equal to the same sources %s", kind, how)
						break
					}
				}
			}
			// the caller changes its argument AFTER the filter was built (and before the filter
			// is used for the first time): the filter keeps the meaning it was built with
			for si, sel := range e17Selectors() {
				if sel == nil {
					continue
				}
				mine := sel.DeepCopy()
				f := filter.LabelSelector(mine)
				if mine.MatchLabels == nil {
					mine.MatchLabels = map[string]string{}
				}
				mine.MatchLabels["l"] = "changed-afterwards"
				for i := range mine.MatchExpressions {
					if len(mine.MatchExpressions[i].Values) > 0 {
						mine.MatchExpressions[i].Values[0] = "changed-afterwards"
					}
					mine.MatchExpressions[i].Key = "other"
				}
				want := acceptBits(filter.LabelSelector(sel.DeepCopy()), uni)
				r.Add("rebuilt-checks", 1)
				if ok, i := same(acceptBits(f, uni), want); !ok {
					o := uni[i]
					r.V("C17", "argument-aliased", "LabelSelector(selector #%d) was built, then the caller changed its selector struct: the filter now decides %T %s/%s labels{%s} differently from a filter built from the original selector (and would still compare equal to it)", si, o, o.GetNamespace(), o.GetName(), kit.LabelsString(o.GetLabels()))
					break
				}
			}
			for _, m := range []map[string]string{{"l": "x"}, {"l": "x", "m": "1"}} {
				mine := copyStrMap(m)
				f := filter.Labels(mine)
				mine["l"] = "changed-afterwards"
				want := acceptBits(filter.Labels(copyStrMap(m)), uni)
				r.Add("rebuilt-checks", 1)
				if ok, _ := same(acceptBits(f, uni), want); !ok {
					r.V("C17", "argument-aliased", "Labels(%v) was built, then the caller changed its map: the filter's decisions changed with it", m)
				}
			}
		}
		// depth 3, sampled pairs: a term against itself rebuilt, against a mutated copy and against a random term
		rng := kit.NewRng(kit.Mix(seed, uint64(chunk)+1718))
		atoms := e17Atoms()
		for i := 0; i < depth3Pairs; i++ {
			t := e17RandomTerm(rng, atoms, 3)
			u := e17RandomTerm(rng, atoms, 3)
			a := builtTerm{t, t.Build(), nil}
			a.bits = acceptBits(a.f, uni)
			b := builtTerm{u, u.Build(), nil}
			b.bits = acceptBits(b.f, uni)
			judge(a, b)
			if t.Comparable() && !hasFNDeep(t) {
				r.Add("rebuilt-checks", 1)
				if !filter.FiltersEqual(a.f, t.Build()) {
					r.V("C17", "rebuilt-not-equal", "%s built twice does not compare equal", t)
				}
			}
		}
		if chunk == 0 {
			// nil handling
			if !filter.FiltersEqual(nil, nil) || filter.FiltersEqual(nil, filter.Null()) || filter.FiltersEqual(filter.Null(), nil) {
				r.V("C17", "nil-handling", "FiltersEqual nil handling: (nil,nil)=%v (nil,Null)=%v (Null,nil)=%v", filter.FiltersEqual(nil, nil), filter.FiltersEqual(nil, filter.Null()), filter.FiltersEqual(filter.Null(), nil))
			}
			// workload filters: every permutation of the sources compares equal
			for _, kind := range wlKinds {
				ws := e17Workloads(kind)
				// names ordered opposite to the namespaces, and equal names in different namespaces
				for _, names := range [][3]string{{"z", "a", "m"}, {"b", "a", "b"}, {"a", "b", "c"}, {"c", "c", "a"}} {
					nss := [3]string{"n0", "n1", "n1"}
					var set []wl
					for i := 0; i < 3; i++ {
						w := ws[(i*7+3)%len(ws)]
						w.ns, w.name = nss[i], names[i]
						set = append(set, w)
					}
					base := buildPodsFilter(kind, set)
					for _, p := range [][]int{{0, 2, 1}, {1, 0, 2}, {1, 2, 0}, {2, 0, 1}, {2, 1, 0}} {
						ps := []wl{set[p[0]], set[p[1]], set[p[2]]}
						r.Add("permutation-checks", 1)
						if !base.Equals(buildPodsFilter(kind, ps)) {
							r.V("C17", "permutation-not-equal", "%s.PodsFilter of sources %s/%s %s/%s %s/%s in order %v does not compare equal to the original order", kind, nss[0], names[0], nss[1], names[1], nss[2], names[2], p)
						}
					}
					for a := 0; a < 3; a++ {
						for b := 0; b < 3; b++ {
							if a != b {
								r.Add("permutation-checks", 1)
								if !buildPodsFilter(kind, []wl{set[a], set[b]}).Equals(buildPodsFilter(kind, []wl{set[b], set[a]})) {
									r.V("C17", "permutation-not-equal", "%s.PodsFilter(%s/%s, %s/%s) does not compare equal to the same two sources in the other order", kind, set[a].ns, set[a].name, set[b].ns, set[b].name)
								}
							}
						}
					}
				}
				for s := 0; s+3 <= len(ws); s += 2 {
					set := []wl{ws[s], ws[s+1], ws[s+2]}
					base := buildPodsFilter(kind, set)
					perms := [][]int{{0, 2, 1}, {1, 0, 2}, {1, 2, 0}, {2, 0, 1}, {2, 1, 0}}
					for _, p := range perms {
						ps := []wl{set[p[0]], set[p[1]], set[p[2]]}
						r.Add("permutation-checks", 1)
						if !base.Equals(buildPodsFilter(kind, ps)) {
							r.V("C17", "permutation-not-equal", "%s.PodsFilter of the same three sources in order %v does not compare equal to the original order", kind, p)
						}
					}
				}
			}
		}
		r.Evals = n
		r.Key(fmt.Sprintf("eq-chunk-%d", chunk))
		r.Count = equal
		r.Add("pairs", n)
		r.Add("pairs-reported-equal", equal)
		r.Sample = map[string]interface{}{"terms": len(terms), "objects": len(uni), "equal_pairs_examples": sample}
	}}
}

func hasFNDeep(t *kit.Term) bool { return !t.Comparable() }

func copyStrMap(m map[string]string) map[string]string {
	out := map[string]string{}
	for k, v := range m {
		out[k] = v
	}
	return out
}

var _ = reflect.DeepEqual
var _ = sort.Strings

func init() {
	register("E17", func(tier string, seed uint64) []Case {
		var cases []Case
		const chunks = 16
		d3 := tierPick(tier, 300, 400000)
		d3p := tierPick(tier, 3200, 400000)
		for c := 0; c < chunks; c++ {
			cases = append(cases, e17SemanticsCase(c, chunks, seed, d3))
			cases = append(cases, e17EqualityCase(c, chunks, seed, d3p))
		}
		for _, k := range wlKinds {
			nc := tierPick(tier, 4, 32)
			for c := 0; c < nc; c++ {
				cases = append(cases, e17OwnCase(k, c, nc, tier == "thorough"))
			}
		}
		cases = append(cases, e17MiscOwnCase())
		return cases
	})
}
