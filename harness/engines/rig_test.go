package engines

import (
	"context"
	"fmt"
	"strconv"
	"sync"
	"time"

	logutil "github.com/boz/go-logutil"
	"github.com/boz/kcache"
	metav1 "k8s.io/apimachinery/pkg/apis/meta/v1"

	"verifharness/kit"
)

const virtBound = time.Hour // virtual-time bound for operations that must complete

// within runs fn in its own goroutine and waits at most virtBound of virtual
// time for it.  false = it did not return (hang).
func within(fn func()) bool {
	done := make(chan struct{})
	go func() { defer close(done); fn() }()
	t := time.NewTimer(virtBound)
	defer t.Stop()
	select {
	case <-done:
		return true
	case <-t.C:
		return false
	}
}

func waitCh(ch <-chan struct{}, d time.Duration) bool {
	t := time.NewTimer(d)
	defer t.Stop()
	select {
	case <-ch:
		return true
	case <-t.C:
		return false
	}
}

func isClosed(ch <-chan struct{}) bool {
	select {
	case <-ch:
		return true
	default:
		return false
	}
}

// ctlRig is a real controller over a fake API server.
type ctlRig struct {
	core   *kit.Core
	log    logutil.Log
	srv    *kit.Server
	ctl    kcache.Controller
	ctx    context.Context
	cancel context.CancelFunc
	F      *kit.Term
}

// newCtlRig builds a controller.  core == nil selects race mode (collaborators
// without shared state).
func newCtlRig(core *kit.Core, srv *kit.Server, period time.Duration, F *kit.Term) (*ctlRig, error) {
	ctx, cancel := context.WithCancel(context.Background())
	return newCtlRigCtx(core, srv, period, F, ctx, cancel)
}

// newCtlRigCtx: same with a context supplied by the caller (e.g. a kit.TrigCtx).
func newCtlRigCtx(core *kit.Core, srv *kit.Server, period time.Duration, F *kit.Term, ctx context.Context, cancel context.CancelFunc) (*ctlRig, error) {
	var log logutil.Log = kit.NullLog{Yield: true}
	if core != nil {
		log = kit.NewLog(core)
	}
	b := kcache.NewBuilder().Context(ctx).Log(log).Client(srv)
	if F != nil {
		b = b.Filter(F.Build())
	} else {
		F = kit.TNull()
	}
	b.Lister().RefreshPeriod(period)
	ctl, err := b.Create()
	if err != nil {
		cancel()
		return nil, err
	}
	return &ctlRig{core: core, log: log, srv: srv, ctl: ctl, ctx: ctx, cancel: cancel, F: F}, nil
}

func (g *ctlRig) barrier() { g.core.Barrier() }

// shutdown closes the controller and reports hangs and leaks under prop.
func (g *ctlRig) shutdown(r *Res, prop string) {
	if !within(func() { g.ctl.Close() }) {
		r.V(prop, "close-hang", "Close() did not return within %v of virtual time\n%s", virtBound, kit.CensusText(kit.Census(), 12))
		g.cancel()
		return
	}
	g.cancel()
	g.barrier()
	if gs := kit.Census(); len(gs) > 0 {
		r.V(prop, "goroutine-leak", "%d library goroutine(s) remain after Close(): %v\n%s", len(gs), kit.CensusKeys(gs), kit.CensusText(gs, 6))
	}
}

type evrec struct {
	Type kcache.EventType
	Key  string
	RV   string
	Obj  metav1.Object
	At   time.Time
}

func (e evrec) String() string { return fmt.Sprintf("%s %s@%s", e.Type, e.Key, e.RV) }

// mirror replays an event stream into a map and checks C02 well-formedness
// against it.  It is owned by one consumer goroutine; readers take the mutex.
type mirror struct {
	mu       sync.Mutex
	name     string
	seeded   bool
	m        kit.Snap
	seq      []evrec
	errs     []string
	closed   bool
	cache    kcache.CacheReader // optional: C05 cache clause
	maxSeen  map[string]int     // newest version received per key since its last delete
	nread    int
	noReplay bool // the producer emits strictly increasing versions and never replays
	cerrs    []string
	ready    <-chan struct{}
	preRdy   int // events received before Ready() closed
	stopped  chan struct{}
	pause    chan struct{} // non-nil: consumer does not read (stalled)
}

func (m *mirror) addErr(s string) {
	if len(m.errs) < 10 {
		m.errs = append(m.errs, s)
	}
}

// startMirror starts a consumer of events.  ready may be nil.
func startMirror(name string, events <-chan kcache.Event, ready <-chan struct{}, cache kcache.CacheReader) *mirror {
	m := &mirror{name: name, m: kit.Snap{}, cache: cache, ready: ready, stopped: make(chan struct{})}
	go func() {
		defer close(m.stopped)
		for e := range events {
			m.apply(e)
		}
		m.mu.Lock()
		m.closed = true
		m.mu.Unlock()
	}()
	return m
}

func (m *mirror) apply(e kcache.Event) {
	o := e.Resource()
	k := kit.Key(o)
	rv := o.GetResourceVersion()
	var cached metav1.Object
	var cerr error
	via := "Get"
	if m.cache != nil {
		// the consumer reads its cache on every event, alternately through Get and List
		m.nread++
		if m.nread%2 == 0 {
			cached, cerr = m.cache.Get(o.GetNamespace(), o.GetName())
		} else {
			via = "List"
			var l []metav1.Object
			l, cerr = m.cache.List()
			for _, x := range l {
				if kit.Key(x) == k {
					cached = x
				}
			}
		}
	}
	m.mu.Lock()
	defer m.mu.Unlock()
	if m.ready != nil && !isClosed(m.ready) {
		m.preRdy++
	}
	m.seq = append(m.seq, evrec{e.Type(), k, rv, o, time.Now()})
	if m.maxSeen == nil {
		m.maxSeen = map[string]int{}
	}
	if e.Type() == kcache.EventTypeDelete {
		// after the delete of an object last received at version V, the cache may hold
		// the key again only in a NEWER incarnation
		// (only where the producer never replays history: behind a real watch an OLD list
		// followed by the replay of the stream re-creates the same version legitimately)
		if prev, ok := m.maxSeen[k]; ok && m.noReplay && m.cache != nil && cerr == nil && cached != nil && kit.Atoi(cached.GetResourceVersion()) <= prev && len(m.cerrs) < 5 {
			m.cerrs = append(m.cerrs, fmt.Sprintf("%s: on receiving delete %s the cache (%s) still returned %s@%s although version %d of that object had been received before the delete", m.name, k, via, k, cached.GetResourceVersion(), prev))
		}
		delete(m.maxSeen, k)
	} else {
		if v := kit.Atoi(rv); v > m.maxSeen[k] {
			m.maxSeen[k] = v
		}
		if m.cache != nil && cerr == nil && cached != nil {
			if kit.Atoi(cached.GetResourceVersion()) < m.maxSeen[k] && len(m.cerrs) < 5 {
				m.cerrs = append(m.cerrs, fmt.Sprintf("%s: on receiving %s %s@%s the cache (%s) returned version %s although version %d of that object had already been received", m.name, e.Type(), k, rv, via, cached.GetResourceVersion(), m.maxSeen[k]))
			}
		}
	}
	if !m.seeded {
		return
	}
	cur, has := m.m[k]
	switch e.Type() {
	case kcache.EventTypeCreate:
		if has {
			m.addErr(fmt.Sprintf("create %s@%s but mirror already has %s (event #%d)", k, rv, cur, len(m.seq)))
		}
		m.m[k] = rv
	case kcache.EventTypeUpdate:
		if !has {
			m.addErr(fmt.Sprintf("update %s@%s but mirror lacks the key (event #%d)", k, rv, len(m.seq)))
		} else if kit.Atoi(rv) <= kit.Atoi(cur) {
			m.addErr(fmt.Sprintf("update %s@%s is not newer than %s (event #%d)", k, rv, cur, len(m.seq)))
		}
		m.m[k] = rv
	case kcache.EventTypeDelete:
		if !has {
			m.addErr(fmt.Sprintf("delete %s@%s but mirror lacks the key (event #%d)", k, rv, len(m.seq)))
		}
		delete(m.m, k)
	default:
		m.addErr(fmt.Sprintf("event of unknown type %q", e.Type()))
	}
}

// seed sets the mirror content; call at a barrier.
func (m *mirror) seed(s kit.Snap) {
	m.mu.Lock()
	m.m = s.Clone()
	m.seeded = true
	m.mu.Unlock()
}

func (m *mirror) snap() kit.Snap {
	m.mu.Lock()
	defer m.mu.Unlock()
	return m.m.Clone()
}
func (m *mirror) count() int {
	m.mu.Lock()
	defer m.mu.Unlock()
	return len(m.seq)
}
func (m *mirror) events() []evrec {
	m.mu.Lock()
	defer m.mu.Unlock()
	return append([]evrec(nil), m.seq...)
}
func (m *mirror) isClosed() bool {
	m.mu.Lock()
	defer m.mu.Unlock()
	return m.closed
}

// report emits the mirror's own findings (well-formedness) under prop.
func (m *mirror) report(r *Res, prop string) {
	m.mu.Lock()
	defer m.mu.Unlock()
	for _, e := range m.errs {
		r.V(prop, "stream-not-wellformed", "%s: %s", m.name, e)
	}
	m.errs = nil
}

func (m *mirror) reportCacheClause(r *Res) {
	m.mu.Lock()
	defer m.mu.Unlock()
	for _, e := range m.cerrs {
		r.V("C05", "cache-older-than-event", "%s", e)
	}
	m.cerrs = nil
}

func tailEvents(ev []evrec, n int) string {
	if len(ev) > n {
		ev = ev[len(ev)-n:]
	}
	s := ""
	for _, e := range ev {
		s += e.String() + "; "
	}
	return s
}

// cacheSnap reads a cache through List.
func cacheSnap(c kcache.CacheReader) (kit.Snap, error) {
	l, err := c.List()
	if err != nil {
		return nil, err
	}
	return kit.SnapOf(l), nil
}

// history generator -----------------------------------------------------------

type universe struct {
	nss    []string
	names  []string
	labels []map[string]string
}

func smallUniverse() universe {
	return universe{
		nss:   []string{"n0", "n1"},
		names: []string{"a", "b", "c"},
		labels: []map[string]string{
			nil, {"l": "x"}, {"l": "y"}, {"l": "x", "m": "1"}, {"m": "1"}, {"l": "z", "m": "2"},
		},
	}
}

// mutate applies one random mutation to the server; returns a description.
func (u universe) mutate(rng *kit.Rng, srv *kit.Server) string {
	ns := u.nss[rng.Intn(len(u.nss))]
	name := u.names[rng.Intn(len(u.names))]
	if srv.Has(ns, name) && rng.Chance(30) {
		rv := srv.Delete(ns, name)
		return fmt.Sprintf("delete %s/%s@%d", ns, name, rv)
	}
	lab := u.labels[rng.Intn(len(u.labels))]
	rv := srv.Put(kit.Pod(ns, name, "", lab))
	return fmt.Sprintf("put %s/%s{%s}@%d", ns, name, kit.LabelsString(lab), rv)
}

// filterFamily is the controller-level / subscription filter family used by
// the tree engines: it includes equal-but-rebuilt, overlapping, disjoint,
// accept-all, accept-none and non-comparable members.
func filterFamily() []*kit.Term {
	lx := map[string]string{"l": "x"}
	isN0 := func(o metav1.Object) bool { return o.GetNamespace() == "n0" }
	return []*kit.Term{
		kit.TNull(),
		kit.TAll(),
		kit.TLabels(lx),
		kit.TNot(kit.TLabels(lx)),
		kit.TNSName(nsnameNew("n0", "")),
		kit.TOr(kit.TLabels(map[string]string{"m": "1"}), kit.TNSName(nsnameNew("n1", "a"), nsnameNew("", "c"))),
		kit.TAnd(kit.TNSName(nsnameNew("n1", "")), kit.TLabels(map[string]string{"l": "y"})),
		kit.TFN("ns-is-n0", isN0), // extensionally equal to member 4, not comparable
		kit.TLSel(&metav1.LabelSelector{MatchExpressions: []metav1.LabelSelectorRequirement{{Key: "l", Operator: metav1.LabelSelectorOpNotIn, Values: []string{"x"}}}}),
		kit.TLabels(map[string]string{"l": "x"}), // rebuilt-equal to member 2
		// a chain of NSName filters ordered by inclusion (an Equals that is only a
		// subset test would take a widening Refilter for "unchanged")
		kit.TNSName(),
		kit.TNSName(nsnameNew("n0", "a")),
		kit.TNSName(nsnameNew("n0", "a"), nsnameNew("n1", "c")),
		kit.TNSName(nsnameNew("n1", "c"), nsnameNew("n0", "a"), nsnameNew("n0", "b")),
		// composites that differ only in a non-comparable child
		kit.TAnd(kit.TLabels(lx), kit.TFN("ns-is-n0", isN0)),
		kit.TAnd(kit.TLabels(lx), kit.TFN("ns-is-n1", func(o metav1.Object) bool { return o.GetNamespace() == "n1" })),
	}
}

// rootRig is a controller without lister/watcher (VerifNewRoot): the engine is
// the only producer, so the published sequence is exactly what it sends.
type rootRig struct {
	core   *kit.Core
	log    logutil.Log
	root   *kcache.VerifRoot
	ctx    context.Context
	cancel context.CancelFunc
	F      *kit.Term
	nextRV int
	sent   []evrec // events handed to Send, in order
	sentMu sync.Mutex
}

func newRootRig(core *kit.Core, F *kit.Term) *rootRig {
	var log logutil.Log = kit.NullLog{Yield: true}
	if core != nil {
		log = kit.NewLog(core)
	}
	if F == nil {
		F = kit.TNull()
	}
	ctx, cancel := context.WithCancel(context.Background())
	return &rootRig{core: core, log: log, root: kcache.VerifNewRoot(ctx, log, F.Build()), ctx: ctx, cancel: cancel, F: F, nextRV: 1}
}

func (g *rootRig) barrier() { g.core.Barrier() }

func (g *rootRig) sentCount() int {
	g.sentMu.Lock()
	defer g.sentMu.Unlock()
	return len(g.sent)
}

// apply feeds one wire event through the cache and publishes the resulting
// events, exactly as controller.run does.  It returns the published events.
func (g *rootRig) apply(typ kcache.EventType, o metav1.Object) ([]kcache.Event, error) {
	evts, err := g.root.Cache().Update(kcache.NewEvent(typ, o))
	if err != nil {
		return nil, err
	}
	for _, e := range evts {
		g.sentMu.Lock()
		g.sent = append(g.sent, evrec{e.Type(), kit.Key(e.Resource()), e.Resource().GetResourceVersion(), e.Resource(), time.Now()})
		g.sentMu.Unlock()
		if err := g.root.Send(e); err != nil {
			return evts, err
		}
	}
	return evts, nil
}

// relist feeds a whole list through the cache and publishes the resulting events,
// as controller.run does for a (re)list: objects that are gone are announced by
// Delete events that carry the cached object.
func (g *rootRig) relist(list []metav1.Object) ([]kcache.Event, error) {
	evts, err := g.root.Cache().Sync(list)
	if err != nil {
		return nil, err
	}
	for _, e := range evts {
		g.sentMu.Lock()
		g.sent = append(g.sent, evrec{e.Type(), kit.Key(e.Resource()), e.Resource().GetResourceVersion(), e.Resource(), time.Now()})
		g.sentMu.Unlock()
		if err := g.root.Send(e); err != nil {
			return evts, err
		}
	}
	return evts, nil
}

// mutate applies a random put/delete with a fresh unique version.
func (g *rootRig) mutate(rng *kit.Rng, u universe) ([]kcache.Event, error) {
	ns := u.nss[rng.Intn(len(u.nss))]
	name := u.names[rng.Intn(len(u.names))]
	rv := strconv.Itoa(g.nextRV)
	g.nextRV++
	cur, _ := g.root.Cache().Get(ns, name)
	if cur != nil && rng.Chance(25) {
		return g.apply(kcache.EventTypeDelete, kit.Pod(ns, name, rv, cur.GetLabels()))
	}
	return g.apply(kcache.EventTypeUpdate, kit.Pod(ns, name, rv, u.labels[rng.Intn(len(u.labels))]))
}

// stop shuts the root down and reports hangs/leaks under prop.
func (g *rootRig) stop(r *Res, prop string) {
	g.root.Stop()
	g.cancel()
	if !waitCh(g.root.Publisher().Done(), virtBound) {
		r.V(prop, "close-hang", "root publisher not done %v after its parent was stopped\n%s", virtBound, kit.CensusText(kit.Census(), 12))
		return
	}
	g.barrier()
	if gs := kit.Census(); len(gs) > 0 {
		r.V(prop, "goroutine-leak", "%d library goroutine(s) remain after the root was stopped: %v\n%s", len(gs), kit.CensusKeys(gs), kit.CensusText(gs, 6))
	}
}

type metav1Object = metav1.Object

func newEv(t kcache.EventType, o metav1.Object) kcache.Event { return kcache.NewEvent(t, o) }

func (m *mirror) isSeeded() bool {
	m.mu.Lock()
	defer m.mu.Unlock()
	return m.seeded
}
func (m *mirror) preReady() int {
	m.mu.Lock()
	defer m.mu.Unlock()
	return m.preRdy
}

func ctxWithCancel() (context.Context, context.CancelFunc) {
	return context.WithCancel(context.Background())
}

// chanLock is a mutex built on a channel: inside a synctest bubble a goroutine
// blocked on it is DURABLY blocked, so virtual time keeps advancing (a
// sync.Mutex held across an injected virtual sleep would freeze the bubble).
type chanLock chan struct{}

func newChanLock() chanLock { return make(chanLock, 1) }
func (l chanLock) Lock()    { l <- struct{}{} }
func (l chanLock) Unlock()  { <-l }
