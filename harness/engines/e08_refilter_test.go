package engines

// E8: Refilter emits precisely the membership changes; nothing if nothing
// changes (C07).  Exhaustive over parent contents x filter pairs (triples in
// thorough) x node variant.

import (
	"fmt"
	"github.com/boz/kcache/filter"
	"github.com/boz/kcache/nsname"
	"sort"
	"strconv"
	"strings"
	"time"

	"github.com/boz/kcache"
	metav1 "k8s.io/apimachinery/pkg/apis/meta/v1"

	"verifharness/kit"
)

var e8Variants = []string{"subwf", "subff", "clonewf+sub", "cloneff+sub"}

func e8Objects() []metav1.Object {
	return []metav1.Object{
		kit.Pod("n0", "a", "1", map[string]string{"l": "x"}),
		kit.Pod("n0", "b", "4294967298", map[string]string{"l": "y", "m": "1"}), // beyond 32 bits
		kit.Pod("n1", "a", "3", map[string]string{"m": "1"}),
		kit.Pod("n1", "c", "9007199254740995", map[string]string{"l": "x", "m": "2"}), // beyond 53 bits
	}
}

// drainNow empties ch without blocking and returns what it held.
func drainNow(ch <-chan kcache.Event) []kcache.Event {
	var out []kcache.Event
	for {
		select {
		case e, ok := <-ch:
			if !ok {
				return out
			}
			out = append(out, e)
		default:
			return out
		}
	}
}

func evSummary(evts []kcache.Event) string {
	var s []string
	for _, e := range evts {
		s = append(s, fmt.Sprintf("%s %s@%s", e.Type(), kit.Key(e.Resource()), e.Resource().GetResourceVersion()))
	}
	sort.Strings(s)
	return "[" + strings.Join(s, ", ") + "]"
}

// e8Expect: the exact multiset of events for f1 -> f2 over content.
func e8Expect(content []metav1.Object, f1, f2 *kit.Term) []string {
	var s []string
	for _, o := range content {
		a, b := f1.Eval(o), f2.Eval(o)
		switch {
		case a && !b:
			s = append(s, fmt.Sprintf("delete %s@%s", kit.Key(o), o.GetResourceVersion()))
		case !a && b:
			s = append(s, fmt.Sprintf("create %s@%s", kit.Key(o), o.GetResourceVersion()))
		}
	}
	sort.Strings(s)
	return s
}

func e8Case(mask int, variant string, triples bool, perturbSeed uint64) Case {
	id := fmt.Sprintf("E8/content%02d/%s/triples=%v/%d", mask, variant, triples, perturbSeed)
	return Case{ID: id, Desc: map[string]interface{}{"content_mask": mask, "variant": variant, "triples": triples}, Bubble: true, Run: func(r *Res) {
		plan := &kit.Plan{Seed: perturbSeed, PYield: 100}
		if mask%2 == 1 {
			plan.Targets = map[string]time.Duration{"refiltering": 100 * time.Microsecond}
		}
		core := kit.NewCore(plan)
		g := newRootRig(core, nil)
		var content []metav1.Object
		for i, o := range e8Objects() {
			if mask&(1<<i) != 0 {
				content = append(content, o)
			}
		}
		if _, err := g.root.Cache().Sync(content); err != nil {
			r.Inc(err.Error())
			return
		}
		g.root.MakeReady()
		fam := filterFamily()
		t := newTree(g.root.Publisher())
		n := int64(0)
		var sample []string
		step := func(nd *node, events <-chan kcache.Event, from, to *kit.Term, label string) bool {
			g.barrier()
			if pre := drainNow(events); len(pre) > 0 {
				r.V("C07", "spurious-events", "%s: %d event(s) %s arrived with no Refilter and no parent event outstanding", label, len(pre), evSummary(pre))
				return false
			}
			before, _ := cacheSnap(nd.cc.Cache())
			if err := nd.refilt(to); err != nil {
				r.V("C07", "refilter-error", "%s: Refilter: %v", label, err)
				return false
			}
			g.barrier()
			evts := drainNow(events)
			want := e8Expect(content, from, to)
			var got []string
			for _, e := range evts {
				got = append(got, fmt.Sprintf("%s %s@%s", e.Type(), kit.Key(e.Resource()), e.Resource().GetResourceVersion()))
			}
			sort.Strings(got)
			n++
			if len(want) > 0 {
				r.Add("refilters-with-delta", 1)
			} else {
				r.Add("refilters-silent", 1)
			}
			if strings.Join(got, ";") != strings.Join(want, ";") {
				r.V("C07", "refilter-delta-wrong", "%s: parent content %v, Refilter %s -> %s delivered %v, expected exactly %v", label, kit.SnapOf(content), from, to, got, want)
				return false
			}
			after, _ := cacheSnap(nd.cc.Cache())
			if exp := to.Accepted(content); !after.Equal(exp) {
				r.V("C07", "refilter-cache-wrong", "%s: after Refilter %s -> %s the cache is %v, expected %v (before: %v)", label, from, to, after, exp, before)
				return false
			}
			if len(sample) < 3 && len(want) > 0 {
				sample = append(sample, fmt.Sprintf("%s -> %s over %v: %v", from, to, kit.SnapOf(content), got))
			}
			return true
		}
		histVer := 9007199254750000 // versions of the history updates: above everything else, increasing
		for i1, f1 := range fam {
			for i2, f2 := range fam {
				label := fmt.Sprintf("%s F%d->F%d", variant, i1, i2)
				var nd *node
				var err error
				kind := strings.TrimSuffix(variant, "+sub")
				nd, err = t.addChild(t.root, kind, f1, false)
				if err != nil {
					r.V("C07", "tree-build-error", "%v", err)
					return
				}
				events := nd.events
				var below *node
				if strings.HasSuffix(variant, "+sub") {
					below, err = t.addChild(nd, "sub", nil, false)
					if err != nil {
						r.V("C07", "tree-build-error", "%v", err)
						return
					}
					events = below.events
				}
				cur := f1
				if nd.deferred {
					// a deferred node starts with the reject-all filter; supplying f1 makes
					// it ready (no events are delivered for the initial content)
					if err := nd.refilt(f1); err != nil {
						r.V("C07", "refilter-error", "%v", err)
						return
					}
				}
				g.barrier()
				if !isClosed(nd.cc.Ready()) {
					r.V("C08", "not-ready", "%s: node with a ready parent and a supplied filter is not ready", label)
					return
				}
				drainNow(events) // none expected; the first step() call checks the channel again after this
				if first, _ := cacheSnap(nd.cc.Cache()); !first.Equal(f1.Accepted(content)) {
					r.V("C06", "initial-content-wrong", "%s: initial content %v, expected %v", label, first, f1.Accepted(content))
					return
				}
				// some history first (every pair in turn takes another kind): an object of the
				// view is updated in place by a parent event, or relabelled so that the current
				// filter rejects it (the node announces a Delete), or relabelled back in
				if hist := (i1 + 2*i2 + mask) % 4; hist > 0 && len(content) > 0 {
					k := (i1 + i2) % len(content)
					old := content[k]
					lab := map[string]string{}
					for kk, vv := range old.GetLabels() {
						lab[kk] = vv
					}
					switch hist {
					case 2:
						lab["l"] = "y"
					case 3:
						lab["l"] = "x"
						lab["m"] = "1"
					}
					histVer++
					nv := kit.Pod(old.GetNamespace(), old.GetName(), strconv.Itoa(histVer), lab)
					if _, err := g.apply(kcacheUpdate, nv); err != nil {
						r.V("C07", "publish-error", "%v", err)
						return
					}
					content = append(append(append([]metav1.Object(nil), content[:k]...), nv), content[k+1:]...)
					g.barrier()
					drainNow(events)
					r.Add("refilters-after-parent-history", 1)
				}
				if !step(nd, events, cur, f2, label) {
					return
				}
				cur = f2
				if triples {
					// A -> B -> A' (A' rebuilt): restores the original view;
					// then A' -> A'' (equal): silent
					if !step(nd, events, cur, f1, label+" back") {
						return
					}
					if !step(nd, events, f1, f1, label+" equal") {
						return
					}
				} else if i1 == i2 || (i1+i2)%3 == 0 {
					if !step(nd, events, cur, f2, label+" equal") {
						return
					}
				}
				if (i1+i2)%4 == 2 || triples {
					// an EQUAL filter (rebuilt) immediately followed by a different one, while
					// the node is still busy with the first: the second must not be lost
					g.barrier()
					drainNow(events)
					other := f1
					if cur == f1 {
						other = f2
					}
					e1, e2 := nd.refilt(cur), nd.refilt(other)
					g.barrier()
					drainNow(events)
					after, _ := cacheSnap(nd.cc.Cache())
					r.Add("back-to-back-refilters", 1)
					if e1 != nil || e2 != nil {
						r.V("C07", "refilter-error", "%s: back-to-back Refilter: %v %v", label, e1, e2)
						return
					}
					if exp := other.Accepted(content); !after.Equal(exp) {
						r.V("C07", "refilter-cache-wrong", "%s: Refilter(%s) (equal to the current filter) immediately followed by Refilter(%s): the cache ends as %v, expected %v (the second call was lost)", label, cur, other, after, exp)
						return
					}
					cur = other
				}
				if (i1+i2)%4 == 1 || triples {
					// back to back, without settling in between: Refilter(f1); Refilter(f2)
					// must end in f2's view, and the delivered events must replay the
					// view before into the view after
					g.barrier()
					drainNow(events)
					before, _ := cacheSnap(nd.cc.Cache())
					e1, e2 := nd.refilt(f1), nd.refilt(f2)
					g.barrier()
					evts := drainNow(events)
					after, _ := cacheSnap(nd.cc.Cache())
					r.Add("back-to-back-refilters", 1)
					if e1 != nil || e2 != nil {
						r.V("C07", "refilter-error", "%s: back-to-back Refilter: %v %v", label, e1, e2)
						return
					}
					if exp := f2.Accepted(content); !after.Equal(exp) {
						r.V("C07", "refilter-cache-wrong", "%s: Refilter(%s) immediately followed by Refilter(%s): the cache ends as %v, expected %v (the second call was lost or misapplied)", label, f1, f2, after, exp)
						return
					}
					replay := before.Clone()
					for _, e := range evts {
						k := kit.Key(e.Resource())
						if e.Type() == kcache.EventTypeDelete {
							delete(replay, k)
						} else {
							replay[k] = e.Resource().GetResourceVersion()
						}
					}
					if !replay.Equal(after) {
						r.V("C07", "refilter-delta-wrong", "%s: back-to-back Refilter(%s), Refilter(%s): replaying the %d delivered events over %v gives %v, the cache is %v", label, f1, f2, len(evts), before, replay, after)
						return
					}
				}
				nd.closer()
			}
		}
		g.stop(r, "C12")
		r.Evals = n
		r.Count = n
		r.Add("pairs", int64(len(fam)*len(fam)))
		r.Sample = map[string]interface{}{"content": kit.SnapOf(content).String(), "variant": variant, "examples": sample}
	}}
}

// e8FilteredParentCase: the parent of the refiltered node is itself a FILTERED
// clone whose content has just changed because one of its objects stopped
// matching the parent's own filter (after the parent had been read).  With no
// parent events in flight, Refilter(f1 -> f2) on the node delivers exactly the
// delta over the parent's true content.
func e8FilteredParentCase(seed uint64, vanish int) Case {
	id := fmt.Sprintf("E8/filtered-parent/%d/vanish%d", seed, vanish)
	return Case{ID: id, Desc: map[string]interface{}{"vanishing_object": vanish, "what": "Refilter below a filtered clone right after that clone dropped an object its own filter no longer accepts"}, Bubble: true, Run: func(r *Res) {
		fam := filterFamily()
		objs := []metav1.Object{
			kit.Pod("n0", "a", "1", map[string]string{"l": "x"}),
			kit.Pod("n0", "b", "2", map[string]string{"l": "x", "m": "1"}),
			kit.Pod("n1", "a", "3", map[string]string{"l": "x", "m": "1"}),
			kit.Pod("n1", "c", "4", map[string]string{"l": "x", "m": "2"}),
		}
		FP := kit.TLabels(map[string]string{"l": "x"})
		n := int64(0)
		for i1, f1 := range fam {
			for i2, f2 := range fam {
				if (i1+i2+vanish)%2 == 1 {
					continue
				}
				core := kit.NewCore(&kit.Plan{Seed: kit.Mix(seed, uint64(i1*100+i2)), PYield: 100})
				g := newRootRig(core, nil)
				if _, err := g.root.Cache().Sync(objs); err != nil {
					r.Inc(err.Error())
					return
				}
				g.root.MakeReady()
				t := newTree(g.root.Publisher())
				P, err := t.addChild(t.root, "clonewf", FP, false)
				if err != nil {
					r.V("C07", "tree-build-error", "%v", err)
					return
				}
				nd, err := t.addChild(P, "subwf", f1, false)
				if err != nil {
					r.V("C07", "tree-build-error", "%v", err)
					return
				}
				g.barrier()
				label := fmt.Sprintf("subwf below clonewf(l=x), F%d->F%d, object #%d leaves the parent", i1, i2, vanish)
				// the parent is read, then one object is relabelled out of the parent's filter
				cacheSnap(P.cc.Cache())
				v := objs[vanish]
				if _, err := g.apply(kcacheUpdate, kit.Pod(v.GetNamespace(), v.GetName(), "50", map[string]string{"l": "y", "m": v.GetLabels()["m"]})); err != nil {
					r.V("C07", "publish-error", "%v", err)
					return
				}
				g.barrier()
				drainNow(nd.events)
				var pcontent []metav1.Object
				for i, o := range objs {
					if i != vanish {
						pcontent = append(pcontent, o)
					}
				}
				if got, _ := cacheSnap(nd.cc.Cache()); !got.Equal(f1.Accepted(pcontent)) {
					r.V("C06", "filtered-cache-mismatch", "%s: before the Refilter the node holds %v, expected %v", label, got, f1.Accepted(pcontent))
					return
				}
				if err := nd.refilt(f2); err != nil {
					r.V("C07", "refilter-error", "%s: %v", label, err)
					return
				}
				g.barrier()
				evts := drainNow(nd.events)
				want := e8Expect(pcontent, f1, f2)
				var got []string
				for _, e := range evts {
					got = append(got, fmt.Sprintf("%s %s@%s", e.Type(), kit.Key(e.Resource()), e.Resource().GetResourceVersion()))
				}
				sort.Strings(got)
				n++
				r.Add("refilters-below-filtered-parent", 1)
				if strings.Join(got, ";") != strings.Join(want, ";") {
					r.V("C07", "refilter-delta-wrong", "%s: the parent (filter l=x) holds %v; Refilter %s -> %s delivered %v, expected exactly %v", label, kit.SnapOf(pcontent), f1, f2, got, want)
					return
				}
				if after, _ := cacheSnap(nd.cc.Cache()); !after.Equal(f2.Accepted(pcontent)) {
					r.V("C07", "refilter-cache-wrong", "%s: after the Refilter the node holds %v, expected %v", label, after, f2.Accepted(pcontent))
					return
				}
				g.stop(r, "C12")
			}
		}
		r.Evals = n
		r.Count = n
		r.Key(id)
	}}
}

// e8CallerSliceCase: the caller keeps ONE slice of ids and builds its NSName filter
// from it every time (spread form), also after editing the slice.  Refiltering
// to a filter built again from the untouched slice is silent; after an edit the
// delta is exactly the membership change.
func e8CallerSliceCase(seed uint64, n int) Case {
	id := fmt.Sprintf("E8/filter-rebuilt-from-callers-slice/%d/%d", seed, n)
	return Case{ID: id, Desc: map[string]interface{}{"n": n, "what": "NSName(ids...) built repeatedly from a slice the caller keeps and edits"}, Bubble: true, Run: func(r *Res) {
		core := kit.NewCore(&kit.Plan{Seed: kit.Mix(seed, uint64(n)), PYield: 100})
		g := newRootRig(core, nil)
		defer g.stop(r, "C12")
		content := []metav1.Object{
			kit.Pod("a", "x1", "1", nil), kit.Pod("a", "x2", "2", nil), kit.Pod("b", "y1", "3", nil),
			kit.Pod("b", "y2", "4", nil), kit.Pod("c", "z1", "5", nil), kit.Pod("c", "x1", "6", nil),
		}
		if _, err := g.root.Cache().Sync(content); err != nil {
			r.Inc(err.Error())
			return
		}
		g.root.MakeReady()
		layouts := [][]nsname.NSName{
			{nsname.New("a", "x1"), nsname.New("b", "")},
			{nsname.New("b", ""), nsname.New("a", "x1")},
			{nsname.New("a", "x1"), nsname.New("", "z1"), nsname.New("b", "y2"), nsname.New("c", "")},
			{nsname.New("", "x1"), nsname.New("a", "x2"), nsname.New("b", "")},
		}
		ids := append([]nsname.NSName(nil), layouts[n%len(layouts)]...)
		ref := func(l []nsname.NSName) *kit.Term { return kit.TNSName(append([]nsname.NSName(nil), l...)...) }
		sub, err := g.root.Publisher().SubscribeWithFilter(filter.NSName(ids...))
		if err != nil {
			r.V("C07", "tree-build-error", "%v", err)
			return
		}
		defer sub.Close()
		g.barrier()
		cur := ref(ids)
		step := func(what string, edit func()) bool {
			before := append([]nsname.NSName(nil), ids...)
			if edit != nil {
				edit()
			}
			want := ref(ids)
			drainNow(sub.Events())
			if err := sub.Refilter(filter.NSName(ids...)); err != nil {
				r.V("C07", "refilter-error", "%s: %v", what, err)
				return false
			}
			g.barrier()
			evts := drainNow(sub.Events())
			exp := e8Expect(content, cur, want)
			var got []string
			for _, e := range evts {
				got = append(got, fmt.Sprintf("%s %s@%s", e.Type(), kit.Key(e.Resource()), e.Resource().GetResourceVersion()))
			}
			sort.Strings(got)
			r.Add("caller-slice-refilters", 1)
			if strings.Join(got, ";") != strings.Join(exp, ";") {
				r.V("C07", "refilter-delta-wrong", "%s: the caller's slice was %v and is now %v; Refilter(NSName(slice...)) delivered %v, expected exactly %v", what, before, ids, got, exp)
				return false
			}
			if after, _ := cacheSnap(sub.Cache()); !after.Equal(want.Accepted(content)) {
				r.V("C07", "refilter-cache-wrong", "%s: the view is %v, expected %v for ids %v", what, after, want.Accepted(content), ids)
				return false
			}
			cur = want
			return true
		}
		if !step("same slice again", nil) || !step("same slice a third time", nil) {
			return
		}
		if !step("first id edited", func() { ids[0] = nsname.New("c", "") }) {
			return
		}
		if !step("same slice after the edit", nil) {
			return
		}
		step("last id edited", func() { ids[len(ids)-1] = nsname.New("a", "x2") })
		r.Key(id)
	}}
}

func init() {
	register("E8", func(tier string, seed uint64) []Case {
		var cases []Case
		for mask := 0; mask < 16; mask++ {
			for _, v := range e8Variants {
				for rep := 0; rep < tierPick(tier, 1, 16); rep++ {
					cases = append(cases, e8Case(mask, v, tier == "thorough", seed+uint64(rep)*7919))
				}
			}
		}
		for v := 0; v < 4; v++ {
			for rep := 0; rep < tierPick(tier, 1, 8); rep++ {
				cases = append(cases, e8FilteredParentCase(seed+uint64(rep)*131, v))
			}
		}
		for i := 0; i < tierPick(tier, 4, 32); i++ {
			cases = append(cases, e8CallerSliceCase(seed, i))
		}
		return cases
	})
}
