package engines

// E6: every subscriber sees the published sequence in order, exactly once (C05).

import (
	"fmt"
	"runtime"
	"strconv"
	"sync"
	"sync/atomic"
	"time"

	"github.com/boz/kcache"

	"verifharness/kit"
)

const (
	kcacheUpdate = kcache.EventTypeUpdate
	kcacheDelete = kcache.EventTypeDelete
	kcacheCreate = kcache.EventTypeCreate
)

type e6desc struct {
	Seed    uint64 `json:"seed"`
	N       int    `json:"n"`
	Events  int    `json:"events"`
	Race    bool   `json:"race_mode"`
	Perturb string `json:"perturb"`
}

type e6leaf struct {
	n            *node
	subscribedAt int  // number of events whose Send had begun when Subscribe returned
	midBurst     bool // subscribed from the second goroutine while a burst was running
	closedAt     int  // -1, or sent-count when the leaf was closed
}

func e6Case(seed uint64, n int, race bool) Case {
	rng := kit.NewRng(kit.Mix(seed, uint64(n)+606))
	total := 200 + rng.Intn(400)
	targets := []string{"", "publisher|distribute event", "publisher|create subscription", "subscription|", "publisher|"}
	tgt := targets[rng.Intn(len(targets))]
	planSeed := rng.U64()
	d := e6desc{seed, n, total, race, tgt}
	id := fmt.Sprintf("E6/%d/%d/r%v", seed, n, race)
	return Case{ID: id, Desc: d, Bubble: true, Run: func(r *Res) {
		plan := &kit.Plan{Seed: planSeed, PYield: 150, PSleep: 40, MaxSleep: 100 * time.Microsecond}
		if tgt != "" {
			plan.Targets = map[string]time.Duration{tgt: 50 * time.Microsecond}
		}
		var core *kit.Core
		if !race {
			core = kit.NewCore(plan)
		}
		g := newRootRig(core, nil)
		u := smallUniverse()
		t := newTree(g.root.Publisher())
		var leaves []*e6leaf
		lmu := newChanLock()
		var started atomic.Int64 // events whose Send has begun
		var midCloses atomic.Int64

		addLeaf := func(rr *kit.Rng, mid bool) {
			lmu.Lock()
			var cands []*node
			for _, x := range t.nodes {
				if x.isController() && t.depth(x) < 3 {
					cands = append(cands, x)
				}
			}
			p := cands[rr.Intn(len(cands))]
			kind := "sub"
			if rr.Chance(35) && t.depth(p) < 2 {
				kind = "clone"
			}
			lmu.Unlock()
			// tree mutation is serialised by lmu only around bookkeeping; the library
			// call itself runs unlocked so that it can race with the sender
			var nn *node
			var err error
			func() {
				lmu.Lock()
				defer lmu.Unlock()
				nn, err = t.addChild(p, kind, nil, true)
			}()
			if err != nil {
				r.V("C05", "subscribe-error", "%s on running publisher: %v", kind, err)
				return
			}
			if kind == "sub" {
				lmu.Lock()
				leaves = append(leaves, &e6leaf{n: nn, subscribedAt: int(started.Load()), midBurst: mid, closedAt: -1})
				lmu.Unlock()
			}
		}
		// initial tree
		for i := 0; i < 3+rng.Intn(4); i++ {
			addLeaf(rng, false)
		}
		// a controller never publishes before it is ready
		g.root.MakeReady()
		sentN := 0
		burstNo := 0
		failed := false
		for sentN < total && !failed {
			burst := 1 + rng.Intn(25)
			// a second goroutine subscribes while the burst is running
			var wg sync.WaitGroup
			if rng.Chance(50) && len(t.nodes) < 24 {
				wg.Add(1)
				rr := rng.Fork(uint64(burstNo))
				go func() {
					defer wg.Done()
					for k := 0; k < 1+rr.Intn(2); k++ {
						if core != nil {
							core.Sleep(time.Duration(1+rr.Intn(30)) * time.Microsecond)
						}
						if rr.Chance(35) {
							// close a leaf while events are being distributed: the others
							// must not notice
							lmu.Lock()
							var open []*e6leaf
							for _, l := range leaves {
								if l.closedAt == -1 {
									open = append(open, l)
								}
							}
							var victim *e6leaf
							if len(open) > 3 {
								victim = open[rr.Intn(len(open))]
								victim.closedAt = -2 // closed mid-burst: how much it received is not judged
							}
							lmu.Unlock()
							if victim != nil {
								victim.n.closer()
								midCloses.Add(1)
							}
							continue
						}
						addLeaf(rr, true)
					}
				}()
			}
			for i := 0; i < burst && sentN < total; i++ {
				// count events as "begun" before handing them to the library
				ns := u.nss[rng.Intn(len(u.nss))]
				name := u.names[rng.Intn(len(u.names))]
				rv := strconv.Itoa(g.nextRV)
				g.nextRV++
				cur, _ := g.root.Cache().Get(ns, name)
				typ, lab := kcacheUpdate, u.labels[rng.Intn(len(u.labels))]
				if cur != nil && rng.Chance(20) {
					typ, lab = kcacheDelete, cur.GetLabels()
				}
				if cur != nil && rng.Chance(6) {
					// a redelivered / stale version of a cached object: publishes nothing
					old := strconv.Itoa(kit.Atoi(cur.GetResourceVersion()) - rng.Intn(2))
					if evts, err := g.apply(kcacheUpdate, kit.Pod(ns, name, old, lab)); err != nil || len(evts) != 0 {
						r.V("C05", "stale-version-published", "a wire event with version %s for %s/%s cached at %s published %d event(s) (err=%v)", old, ns, name, cur.GetResourceVersion(), len(evts), err)
						failed = true
						break
					}
					r.Add("stale-wire-events", 1)
				}
				started.Add(1) // every wire event here yields exactly one published event
				evts, err := g.apply(typ, kit.Pod(ns, name, rv, lab))
				if err != nil || len(evts) != 1 {
					r.V("C05", "publish-error", "apply #%d: err=%v events=%d", sentN, err, len(evts))
					failed = true
					break
				}
				sentN++
			}
			wg.Wait()
			g.barrier()
			burstNo++
			// occasionally close a leaf at the barrier
			if rng.Chance(15) {
				lmu.Lock()
				if len(leaves) > 2 {
					l := leaves[rng.Intn(len(leaves))]
					if l.closedAt == -1 {
						l.closedAt = sentN
						l.n.closer()
					}
				}
				lmu.Unlock()
				g.barrier()
			}
			if rng.Chance(40) && len(t.nodes) < 24 {
				addLeaf(rng, false)
			}
		}
		stopAfterBurst := n%3 == 0 && !failed
		if stopAfterBurst {
			// a last burst immediately followed by the shutdown of the root: every
			// event whose publication returned must still reach every open leaf
			// before its Events() channel is closed
			for i := 0; i < 1+rng.Intn(20); i++ {
				ns, name := u.nss[rng.Intn(len(u.nss))], u.names[rng.Intn(len(u.names))]
				rv := strconv.Itoa(g.nextRV)
				g.nextRV++
				if _, err := g.apply(kcacheUpdate, kit.Pod(ns, name, rv, u.labels[rng.Intn(len(u.labels))])); err != nil {
					break
				}
			}
			g.root.Stop()
			r.Add("burst-then-stop-cases", 1)
		}
		g.barrier()
		sent := g.sent
		overrun := core != nil && core.Overruns() > 0
		if overrun {
			r.Inc("buffer overrun logged although at most 25 events were in flight")
		}
		for _, l := range leaves {
			got := l.n.mir.events()
			upto := len(sent)
			if l.closedAt >= 0 {
				upto = l.closedAt
			}
			if l.closedAt == -2 {
				// closed while events were in flight: must still be an in-order,
				// duplicate-free run of the published sequence
				if n, why := checkSubsequence(got, sent); n < 0 {
					r.V("C05", "order-or-duplicate", "%s (closed mid-burst): %s", l.n, why)
				}
				continue
			}
			r.Add("leaves", 1)
			r.Add("events-received", int64(len(got)))
			if l.midBurst {
				r.Add("mid-burst-subscribers", 1)
			}
			// map version -> index in the published sequence
			// (versions are unique and increasing with the index)
			if len(got) == 0 {
				if l.subscribedAt < upto {
					r.V("C05", "events-missing", "%s (depth %d) subscribed when %d events had begun, %d were published before it was closed, received none", l.n, t.depth(l.n), l.subscribedAt, upto)
				}
				continue
			}
			first := -1
			for i, s := range sent {
				if s.RV == got[0].RV && s.Type == got[0].Type && s.Obj == got[0].Obj {
					first = i
					break
				}
			}
			if first < 0 {
				r.V("C05", "unknown-event", "%s received %s which was never published", l.n, got[0])
				continue
			}
			if first > l.subscribedAt {
				r.V("C05", "events-missing", "%s (depth %d, mid-burst=%v) subscribed when %d events had begun but its first event is published event #%d (%s): events #%d..#%d were skipped",
					l.n, t.depth(l.n), l.midBurst, l.subscribedAt, first, got[0], l.subscribedAt, first-1)
			}
			bad := false
			for i, e := range got {
				idx := first + i
				if idx >= len(sent) || sent[idx].RV != e.RV || sent[idx].Type != e.Type || sent[idx].Key != e.Key || sent[idx].Obj != e.Obj {
					want := "nothing (end of published sequence)"
					if idx < len(sent) {
						want = sent[idx].String()
					}
					r.V("C05", "order-or-duplicate", "%s (depth %d): received event %d is %s, published sequence has %s at that position (duplicate, omission or reordering); received tail: %s", l.n, t.depth(l.n), i, e, want, tailEvents(got[:i+1], 6))
					bad = true
					break
				}
			}
			if !bad && first+len(got) < upto {
				r.V("C05", "events-missing", "%s (depth %d): received %d events ending at published #%d, but %d had been published before it was closed", l.n, t.depth(l.n), len(got), first+len(got)-1, upto)
			}
			if l.n.mir.preReady() > 0 {
				r.V("C08", "event-before-ready", "%s received %d event(s) before its Ready() closed", l.n, l.n.mir.preReady())
			}
			l.n.mir.reportCacheClause(r)
		}
		r.Add("published", int64(len(sent)))
		r.Add("bursts", int64(burstNo))
		r.Add("mid-burst-closes", midCloses.Load())
		if core != nil {
			r.Set("signatures", strconv.FormatUint(core.Signature(), 16))
			for _, p := range core.Points() {
				r.Set("points", p)
			}
		}
		g.stop(r, "C12")
		r.Key(id)
		r.Sample = map[string]interface{}{"desc": d, "nodes": len(t.nodes), "leaves": len(leaves), "published": len(sent)}
	}}
}

// e6CtlCase: the same oracle on the real controller path (list/watch over the
// fake server, clean watch, relists disabled): the published sequence is the
// server's event log; the cache clause is checked by every consumer right after
// each received event.
func e6CtlCase(seed uint64, n int) Case {
	rng0 := kit.NewRng(kit.Mix(seed, uint64(n)+6600))
	total := 100 + rng0.Intn(200)
	targets := []string{"", "controller|update event", "controller|distribute events", "publisher|distribute event", "watcher|session event"}
	tgt := targets[rng0.Intn(len(targets))]
	d := e6desc{seed, n, total, false, "controller-path:" + tgt}
	id := fmt.Sprintf("E6/ctl/%d/%d", seed, n)
	return Case{ID: id, Desc: d, Bubble: true, Run: func(r *Res) {
		rng := rng0
		plan := &kit.Plan{Seed: rng.U64(), PYield: 150, PSleep: 40, MaxSleep: 100 * time.Microsecond}
		if tgt != "" {
			plan.Targets = map[string]time.Duration{tgt: 80 * time.Microsecond}
		}
		core := kit.NewCore(plan)
		srv := kit.NewPodServer(core)
		u := smallUniverse()
		for i := 0; i < 3; i++ {
			u.mutate(rng, srv)
		}
		g, err := newCtlRig(core, srv, 10000*time.Hour, nil)
		if err != nil {
			r.Inc(err.Error())
			return
		}
		t := newTree(g.ctl)
		type leaf struct {
			n  *node
			at int // server log length when Subscribe returned
		}
		var leaves []leaf
		add := func() {
			var cands []*node
			for _, x := range t.nodes {
				if x.isController() && t.depth(x) < 3 {
					cands = append(cands, x)
				}
			}
			p := cands[rng.Intn(len(cands))]
			kind := "sub"
			if rng.Chance(35) && t.depth(p) < 2 {
				kind = "clone"
			}
			nn, err := t.addChild(p, kind, nil, true)
			if err != nil {
				r.V("C05", "subscribe-error", "%v", err)
				return
			}
			if kind == "sub" {
				leaves = append(leaves, leaf{nn, len(srv.LogCopy())})
			}
		}
		for i := 0; i < 4; i++ {
			add()
		}
		if !waitCh(g.ctl.Ready(), virtBound) {
			r.V("C05", "never-ready", "controller not ready")
			return
		}
		g.barrier()
		base := len(srv.LogCopy())
		for i := range leaves {
			leaves[i].at = base
		}
		sentN := 0
		for sentN < total {
			burst := 1 + rng.Intn(25)
			for i := 0; i < burst && sentN < total; i++ {
				u.mutate(rng, srv)
				sentN++
			}
			g.barrier()
			if rng.Chance(40) && len(t.nodes) < 20 {
				add()
			}
		}
		g.barrier()
		var sent []evrec
		for _, e := range srv.LogCopy() {
			m, _ := e.Obj.(metav1Object)
			typ := kcacheUpdate
			switch e.Type {
			case "ADDED":
				typ = kcacheCreate
			case "DELETED":
				typ = kcacheDelete
			}
			sent = append(sent, evrec{Type: typ, Key: kit.Key(m), RV: m.GetResourceVersion()})
		}
		if core.Overruns() > 0 {
			r.Inc("buffer overrun logged although at most 25 events were in flight")
		}
		for _, l := range leaves {
			got := l.n.mir.events()
			want := sent[l.at:]
			r.Add("leaves", 1)
			r.Add("controller-path-leaves", 1)
			r.Add("events-received", int64(len(got)))
			if len(got) != len(want) {
				r.V("C05", "events-missing", "controller path: %s (depth %d) received %d events, the server emitted %d after it subscribed; tail: %s", l.n, t.depth(l.n), len(got), len(want), tailEvents(got, 5))
				continue
			}
			for i := range got {
				if !sameEvent(got[i], want[i]) {
					r.V("C05", "order-or-duplicate", "controller path: %s event %d is %s, the server's event at that position is %s", l.n, i, got[i], want[i])
					break
				}
			}
			l.n.mir.reportCacheClause(r)
			if l.n.mir.preReady() > 0 {
				r.V("C08", "event-before-ready", "%s received %d event(s) before Ready()", l.n, l.n.mir.preReady())
			}
		}
		r.Add("published", int64(len(sent)-base))
		r.Set("signatures", strconv.FormatUint(core.Signature(), 16))
		g.shutdown(r, "C12")
		r.Key(id)
		r.Sample = map[string]interface{}{"desc": d, "nodes": len(t.nodes), "leaves": len(leaves), "server_events": len(sent) - base}
	}}
}

// e6RelistCase: controller path WITH relists that produce multi-event batches
// (the watch drops events) while further watch events arrive: every subscriber's
// stream must stay a well-formed, in-order delta (no object going backwards),
// and reading the cache after an event never returns an older version.
func e6RelistCase(seed uint64, n int) Case {
	id := fmt.Sprintf("E6/relist/%d/%d", seed, n)
	return Case{ID: id, Desc: map[string]interface{}{"seed": seed, "n": n, "path": "controller with lossy watch and relists"}, Bubble: true, Run: func(r *Res) {
		rng := kit.NewRng(kit.Mix(seed, uint64(n)+6660))
		P := time.Second
		tgt := []string{"controller|distribute events", "controller|list complete", "publisher|distribute event", "controller|update event"}[rng.Intn(4)]
		hold := time.Duration(100+rng.Intn(400)) * time.Microsecond
		if n%2 == 0 {
			// hold whoever is at that point for a long (virtual) time: whatever it was
			// about to publish is overtaken by everything else
			hold = time.Duration(20+rng.Intn(200)) * time.Millisecond
		}
		core := kit.NewCore(&kit.Plan{Seed: rng.U64(), PYield: 150, PSleep: 30, MaxSleep: 100 * time.Microsecond, Targets: map[string]time.Duration{tgt: hold}})
		srv := kit.NewPodServer(core)
		u := smallUniverse()
		for i := 0; i < 4; i++ {
			u.mutate(rng, srv)
		}
		drng := rng.Fork(9)
		srv.WatchPlan = func(i int) kit.WatchFault {
			f := kit.NoWatchFault()
			f.Drop = map[int]bool{}
			for j := 0; j < 200; j++ {
				if drng.Chance(45) {
					f.Drop[j] = true
				}
			}
			return f
		}
		g, err := newCtlRig(core, srv, P, nil)
		if err != nil {
			r.Inc(err.Error())
			return
		}
		t := newTree(g.ctl)
		for i := 0; i < 5; i++ {
			var cands []*node
			for _, x := range t.nodes {
				if x.isController() && t.depth(x) < 3 {
					cands = append(cands, x)
				}
			}
			kind := "sub"
			if i%2 == 1 {
				kind = "clone"
			}
			if _, err := t.addChild(cands[rng.Intn(len(cands))], kind, nil, true); err != nil {
				r.V("C05", "subscribe-error", "%v", err)
				return
			}
		}
		if !waitCh(g.ctl.Ready(), virtBound) {
			r.V("C05", "never-ready", "controller not ready")
			return
		}
		g.barrier()
		s0, _ := cacheSnap(g.ctl.Cache())
		for _, nd := range t.nodes {
			if nd.mir != nil {
				nd.mir.seed(s0)
			}
		}
		for round := 0; round < 6 && !r.Failed(); round++ {
			// mutations spread over a little more than one period, so that relists
			// find several differences and watch events keep arriving around them
			for i := 0; i < 10; i++ {
				u.mutate(rng, srv)
				time.Sleep(time.Duration(20+rng.Intn(200)) * time.Millisecond)
			}
			time.Sleep(P + P/5)
			g.barrier()
			for _, nd := range t.nodes {
				if nd.mir == nil {
					continue
				}
				nd.mir.report(r, "C05")
				nd.mir.reportCacheClause(r)
				r.Add("relist-path-stream-checks", 1)
			}
		}
		r.Add("relist-path-lists", int64(len(srv.Lists())))
		g.shutdown(r, "C12")
		r.Key(id)
		r.Sample = map[string]interface{}{"path": "controller with lossy watch and relists", "slow_point": tgt, "lists": len(srv.Lists())}
	}}
}

// e6CatchUpCase: one subscriber falls behind until its buffer overruns and then
// catches up in one go, at the very moment the library is handling the overrun
// (the harness's logger holds that moment open).  The subscribers that keep up
// must not notice: every event, in order, exactly once.
func e6CatchUpCase(seed uint64, n int) Case {
	id := fmt.Sprintf("E6/sibling-catches-up-during-overrun/%d/%d", seed, n)
	hold := []time.Duration{100 * time.Microsecond, 300 * time.Microsecond, 800 * time.Microsecond}[n%3]
	return Case{ID: id, Desc: map[string]interface{}{"seed": seed, "n": n, "overrun_hold": hold.String(), "what": "a lagging sibling drains its whole backlog while its overrun is being handled"}, Bubble: true, Run: func(r *Res) {
		rng := kit.NewRng(kit.Mix(seed, uint64(n)+6600))
		// every Warn-level message of a subscription is held (the overrun report is the
		// only one the pinned library has); plus the usual random perturbation
		core := kit.NewCore(&kit.Plan{Seed: rng.U64(), PYield: 100, PSleep: 10, MaxSleep: 40 * time.Microsecond,
			Targets: map[string]time.Duration{"overrun": hold, "buffer full": hold}})
		g := newRootRig(core, nil)
		defer g.stop(r, "C12")
		g.root.MakeReady()
		u := smallUniverse()
		t := newTree(g.root.Publisher())
		var healthy []*node
		for _, k := range []string{"sub", "clone"} {
			nd, err := t.addChild(t.root, k, nil, true)
			if err != nil {
				r.V("C05", "tree-build-error", "%v", err)
				return
			}
			if k == "clone" {
				if nd, err = t.addChild(nd, "sub", nil, true); err != nil {
					r.V("C05", "tree-build-error", "%v", err)
					return
				}
			}
			healthy = append(healthy, nd)
		}
		lag, err := g.root.Publisher().Subscribe()
		if err != nil {
			r.V("C05", "tree-build-error", "%v", err)
			return
		}
		g.barrier()
		// the lagging consumer: sleeps until its buffer is full, a little longer, then
		// takes everything that is there, again and again
		stop := make(chan struct{})
		cdone := make(chan struct{})
		catchups := 0
		lagDelay := time.Duration(20+rng.Intn(int(hold/time.Microsecond))) * time.Microsecond
		go func() {
			defer close(cdone)
			ch := lag.Events()
			for {
				select {
				case <-stop:
					return
				case <-time.After(10 * time.Microsecond):
				}
				if len(ch) < cap(ch) {
					continue
				}
				time.Sleep(lagDelay)
				for len(ch) > 0 {
					<-ch
				}
				catchups++
			}
		}()
		total := 3*kcache.EventBufsiz + 20
		for i := 0; i < total; i++ {
			okc := make(chan error, 1)
			pdone := make(chan struct{})
			go func() { _, err := g.mutate(rng, u); okc <- err; close(pdone) }()
			if !waitCh(pdone, 100*time.Millisecond) { // (short: the lagging consumer polls in virtual time)
				r.V("C05", "producer-blocked", "publishing event %d of %d did not complete within 100ms of virtual time: a lagging sibling that caught up during its overrun blocks the fan-out\n%s", i, total, kit.CensusText(kit.Census(), 10))
				close(stop)
				return
			}
			if err := <-okc; err != nil {
				r.V("C05", "publish-error", "%v", err)
				close(stop)
				return
			}
			// at most 20 events in flight for the subscribers that keep up (the lagging
			// consumer only sleeps at a barrier, it does not read)
			if i%20 == 19 {
				g.barrier()
			}
		}
		time.Sleep(2 * hold)
		close(stop)
		<-cdone
		g.barrier()
		sent := g.sent
		for _, h := range healthy {
			checkExactP(r, "C05", h.String()+" (a sibling lagged, overran and caught up)", h.mir.events(), sent)
			r.Add("leaves", 1)
		}
		r.Add("catch-ups-during-overrun", int64(catchups))
		lag.Close()
		r.Key(id)
		r.Sample = map[string]interface{}{"published": len(sent), "catch_ups": catchups}
	}}
}

func lastEvents(nd *node) string {
	if nd.mir == nil {
		return "(a clone: no event stream of its own)"
	}
	return tailEvents(nd.mir.events(), 6)
}

// checkExactP: got must equal sent (same events, same order).
func checkExactP(r *Res, prop, name string, got, sent []evrec) {
	if len(got) != len(sent) {
		r.V(prop, "subscriber-lost-events", "%s received %d of %d published events; tail: %s", name, len(got), len(sent), tailEvents(got, 5))
		return
	}
	for i := range got {
		if !sameEvent(got[i], sent[i]) {
			r.V(prop, "subscriber-order", "%s: event %d is %s, published %s", name, i, got[i], sent[i])
			return
		}
	}
}

// e6MidFilteredCase: subscribers with an accept-all FILTER (SubscribeWithFilter,
// CloneWithFilter + Subscribe) are created while another goroutine is
// publishing without pause.  Such a subscriber starts from a copy of its
// parent's content and must from then on see everything: whatever was
// published after it was created is either in that copy or arrives as an
// event.  At quiescence its view therefore equals the publisher's.
func e6MidFilteredCase(seed uint64, n int, race bool) Case {
	id := fmt.Sprintf("E6/filtered-subscribers-created-mid-stream/%d/%d/r%v", seed, n, race)
	return Case{ID: id, Desc: map[string]interface{}{"seed": seed, "n": n, "race_mode": race, "what": "accept-all filtered subscribers created while events are being published"}, Bubble: true, Run: func(r *Res) {
		rng := kit.NewRng(kit.Mix(seed, uint64(n)+6700))
		var core *kit.Core
		if !race {
			core = kit.NewCore(&kit.Plan{Seed: rng.U64(), PYield: 300, PSleep: 20, MaxSleep: 30 * time.Microsecond})
		}
		g := newRootRig(core, nil)
		defer g.stop(r, "C12")
		u := smallUniverse()
		g.root.MakeReady()
		for i := 0; i < 4; i++ {
			g.mutate(rng, u)
		}
		t := newTree(g.root.Publisher())
		total := 0
		var subs []*node
		prng := rng.Fork(77)
		judge := func() bool {
			want, _ := cacheSnap(g.root.Cache().Reader())
			for _, nd := range subs {
				r.Add("mid-stream-filtered-subscriber-checks", 1)
				if !isClosed(nd.cc.Ready()) {
					r.V("C08", "not-ready", "%s (accept-all filter) on a ready publisher is not ready at quiescence", nd)
					return false
				}
				got, err := cacheSnap(nd.cc.Cache())
				if err != nil {
					continue
				}
				if !got.Equal(want) {
					r.V("C05", "events-missing", "%s (accept-all filter) was created while events were being published; at quiescence its view is %v, the publisher's is %v: an event published after it was created is neither in its initial copy nor was it delivered; its last events: %s", nd, got, want, lastEvents(nd))
					return false
				}
			}
			return true
		}
		for burst := 0; burst < 40 && !r.Failed(); burst++ {
			// 20 events per burst, a quiescence barrier between bursts: nobody's backlog
			// comes near the buffer size
			pubDone := make(chan error, 1)
			go func() {
				for i := 0; i < 20; i++ {
					if _, err := g.mutate(prng, u); err != nil {
						pubDone <- err
						return
					}
					if i%3 == 0 {
						runtime.Gosched()
					}
				}
				pubDone <- nil
			}()
			for k := 0; k < 5+rng.Intn(3); k++ {
				kind := []string{"subwf", "clonewf", "subwf"}[(burst+k)%3]
				nd, err := t.addChild(t.root, kind, kit.TNull(), true)
				if err != nil {
					r.V("C05", "subscribe-error", "%s on a running publisher: %v", kind, err)
					break
				}
				subs = append(subs, nd)
				if kind == "clonewf" {
					t.addChild(nd, "sub", nil, true)
				}
				for y := 0; y < rng.Intn(4); y++ {
					runtime.Gosched()
				}
			}
			// ... and some of the existing ones are given a NEW accept-all filter (a function
			// filter never compares equal) while the events are going out: the subscriber
			// re-reads its parent, and must still end up with everything
			for k := 0; k < 10 && len(subs) > 0; k++ {
				nd := subs[rng.Intn(len(subs))]
				if nd.refilt != nil && !isClosed(nd.done) {
					if err := nd.refilt(kit.TFN("accept-all", func(metav1Object) bool { return true })); err != nil {
						r.V("C05", "refilter-error", "Refilter on live %s: %v", nd, err)
						return
					}
					r.Add("refilters-mid-stream", 1)
				}
				runtime.Gosched()
			}
			if err := <-pubDone; err != nil {
				r.V("C05", "publish-error", "%v", err)
				return
			}
			total += 20
			core.Barrier()
			if !judge() {
				return
			}
			if len(subs) > 12 {
				// keep the fan-out small: close the oldest (they were checked at every barrier)
				for _, nd := range subs[:len(subs)-4] {
					nd.closer()
				}
				subs = subs[len(subs)-4:]
				core.Barrier()
			}
		}
		core.Barrier()
		judge()
		r.Key(id)
		r.Sample = map[string]interface{}{"published": total, "subscribers": len(subs)}
	}}
}


// e6FilteredRootCase: the publisher's own cache has a content-dependent filter
// (as a controller built with Builder.Filter), so objects leave the cache by
// being relabelled, not only by being deleted.  Every subscriber reads its
// cache (Get and List alternately) on each event it receives: never an older
// version than it has been told about, and no object it has been told is gone.
func e6FilteredRootCase(seed uint64, n int) Case {
	id := fmt.Sprintf("E6/filtered-root/%d/%d", seed, n)
	return Case{ID: id, Desc: map[string]interface{}{"seed": seed, "n": n, "what": "root cache with a label filter; consumers read their cache on every event"}, Bubble: true, Run: func(r *Res) {
		rng := kit.NewRng(kit.Mix(seed, uint64(n)+6800))
		core := kit.NewCore(&kit.Plan{Seed: rng.U64(), PYield: 100, PSleep: 10, MaxSleep: 30 * time.Microsecond})
		F := kit.TLabels(map[string]string{"l": "x"})
		g := newRootRig(core, F)
		defer g.stop(r, "C12")
		g.root.MakeReady()
		pub := g.root.Publisher()
		var mirs []*mirror
		for i := 0; i < 3; i++ {
			var sub kcache.Subscription
			var err error
			if i == 2 {
				var cl kcache.Controller
				if cl, err = pub.Clone(); err == nil {
					sub, err = cl.Subscribe()
				}
			} else {
				sub, err = pub.Subscribe()
			}
			if err != nil {
				r.V("C05", "subscribe-error", "%v", err)
				return
			}
			mirs = append(mirs, startMirror(fmt.Sprintf("subscriber-%d", i), sub.Events(), sub.Ready(), sub.Cache()))
		}
		// and one below a FILTERED clone whose filter accepts everything: it has a cache of
		// its own, fed by the events its parent publishes (deletes included, whatever
		// version the deleted object carries)
		if fc, err := pub.CloneWithFilter(kit.TNull().Build()); err == nil {
			if sub, err := fc.Subscribe(); err == nil {
				mirs = append(mirs, startMirror("subscriber-below-accept-all-clone", sub.Events(), sub.Ready(), sub.Cache()))
			}
		}
		g.barrier()
		for _, m := range mirs {
			m.seed(kit.Snap{})
			m.mu.Lock()
			m.noReplay = true
			m.mu.Unlock()
		}
		names := []string{"a", "b", "c", "d"}
		for i := 0; i < 200; i++ {
			nm := names[rng.Intn(len(names))]
			lab := map[string]string{"l": []string{"x", "x", "y"}[rng.Intn(3)]}
			typ := kcacheUpdate
			if rng.Chance(10) {
				typ = kcacheDelete
			}
			rv := strconv.Itoa(g.nextRV)
			g.nextRV++
			if typ == kcacheDelete && rng.Bool() {
				// a delete that carries the object exactly as it is cached (what a relist that
				// finds the object gone produces): same version, not a newer one
				if cur, _ := g.root.Cache().Get("n0", nm); cur != nil {
					rv, lab = cur.GetResourceVersion(), cur.GetLabels()
				}
			}
			if _, err := g.apply(typ, kit.Pod("n0", nm, rv, lab)); err != nil {
				r.V("C05", "publish-error", "%v", err)
				return
			}
			if i%20 == 19 {
				g.barrier()
			}
			if i%25 == 24 {
				// a relist that finds one object gone and the others unchanged
				cur, _ := g.root.Cache().Reader().List()
				if len(cur) > 1 {
					drop := rng.Intn(len(cur))
					var l []metav1Object
					for j, o := range cur {
						if j != drop {
							l = append(l, o)
						}
					}
					if _, err := g.relist(l); err != nil {
						r.V("C05", "publish-error", "%v", err)
						return
					}
					r.Add("relist-detected-deletions", 1)
				}
			}
		}
		g.barrier()
		sent := g.sent
		for _, m := range mirs {
			checkExactP(r, "C05", m.name+" (root cache filtered by l=x)", m.events(), sent)
			m.report(r, "C05")
			m.reportCacheClause(r)
			r.Add("leaves", 1)
		}
		r.Add("filtered-root-cases", 1)
		r.Key(id)
		r.Sample = map[string]interface{}{"published": len(sent)}
	}}
}

func init() {
	register("E6", func(tier string, seed uint64) []Case {
		var cases []Case
		n := tierPick(tier, 240, 40000)
		for i := 0; i < n; i++ {
			cases = append(cases, e6Case(seed, i, i%8 == 7))
		}
		m := tierPick(tier, 80, 12000)
		for i := 0; i < m; i++ {
			cases = append(cases, e6CtlCase(seed, i))
		}
		for i := 0; i < tierPick(tier, 60, 8000); i++ {
			cases = append(cases, e6RelistCase(seed, i))
		}
		for i := 0; i < tierPick(tier, 18, 1200); i++ {
			cases = append(cases, e6CatchUpCase(seed, i))
		}
		for i := 0; i < tierPick(tier, 24, 1500); i++ {
			cases = append(cases, e6FilteredRootCase(seed, i))
		}
		for i := 0; i < tierPick(tier, 48, 3000); i++ {
			cases = append(cases, e6MidFilteredCase(seed, i, i%2 == 1))
		}
		return cases
	})
}
