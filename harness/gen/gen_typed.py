#!/usr/bin/env python3
"""Instantiates the typed-facade harness template for the 12 typed packages.
Output: ../engines/e18_typed_<pkg>_test.go (committed; regenerate with this script)."""
import os
PKGS = [
 ("pod", "corev1", "Pod"), ("service", "corev1", "Service"), ("secret", "corev1", "Secret"),
 ("node", "corev1", "Node"), ("event", "corev1", "Event"), ("replicationcontroller", "corev1", "ReplicationController"),
 ("ingress", "netv1beta1", "Ingress"), ("job", "batchv1", "Job"),
 ("daemonset", "appsv1", "DaemonSet"), ("deployment", "appsv1", "Deployment"),
 ("replicaset", "appsv1", "ReplicaSet"), ("statefulset", "appsv1", "StatefulSet"),
]
IMPORTS = {"corev1": 'corev1 "k8s.io/api/core/v1"', "netv1beta1": 'netv1beta1 "k8s.io/api/networking/v1beta1"',
           "batchv1": 'batchv1 "k8s.io/api/batch/v1"', "appsv1": 'appsv1 "k8s.io/api/apps/v1"'}
TEMPLATE = open(os.path.join(os.path.dirname(__file__), "typed_facade.go.tmpl")).read()
out = os.path.join(os.path.dirname(__file__), "..", "engines")
for pkg, api, typ in PKGS:
    s = TEMPLATE.replace("PKG", pkg).replace("APIIMPORT", IMPORTS[api]).replace("OBJ", api + "." + typ).replace("LISTT", api + "." + typ + "List").replace("TITLE", typ)
    open(os.path.join(out, "e18_typed_%s_test.go" % pkg), "w").write(s)
print("generated", len(PKGS))
