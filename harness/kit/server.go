package kit

import (
	"context"
	"errors"
	"fmt"
	"strconv"
	"sync"
	"time"

	corev1 "k8s.io/api/core/v1"
	"k8s.io/apimachinery/pkg/api/meta"
	metav1 "k8s.io/apimachinery/pkg/apis/meta/v1"
	"k8s.io/apimachinery/pkg/runtime"
	"k8s.io/apimachinery/pkg/watch"
)

// ListFaultKind enumerates what a List call can be made to return.
type ListFaultKind int

const (
	ListOK ListFaultKind = iota
	ListErr
	ListNonList    // an object that is not a list
	ListNonObjects // a list whose items are not metav1.Object
	ListNoAccessor // an object without list accessor (and not meta.List)
	ListNilNil     // (nil, nil)
	ListHetero     // corev1.List with a foreign-typed item (valid for untyped)
	ListStatus     // a *metav1.Status (has ListMeta, no Items) with a nil error
	ListErrAndList // a non-nil, empty list together with an error (what typed clientsets return on failure)
)

func (k ListFaultKind) String() string {
	return [...]string{"ok", "error", "non-list", "non-objects", "no-accessor", "nil-nil", "hetero", "status-object", "error-with-empty-list"}[k]
}

var ErrInjected = errors.New("injected list failure")
var ErrInjectedWatch = errors.New("injected watch failure")

type ListFault struct {
	Kind    ListFaultKind
	Latency time.Duration
	// SnapshotLate: take the snapshot when the latency has elapsed instead of
	// when the call starts.
	SnapshotLate bool
	// EmptyRV: the returned list carries no resourceVersion (as client-go's fake
	// clientset does); a Watch without resourceVersion then starts "now".
	EmptyRV bool
	// Err: the error a ListErr fault returns (default ErrInjected).
	Err error
}

// WatchFault describes the behaviour of one Watch() call / stream.
type WatchFault struct {
	Err        bool          // Watch() returns an error
	Block      bool          // Watch() blocks until ctx is cancelled
	Latency    time.Duration // connect latency
	CloseAfter int           // close the stream after this many delivered events; <0 never
	Drop       map[int]bool  // delivery indices (0-based) that are silently dropped
	Dup        map[int]bool  // delivery indices that are sent twice
	// Frames[i] are extra frames sent before the event with delivery index i.
	Frames map[int][]watch.Event
	// ErrValue: the error an Err fault returns (default ErrInjectedWatch).
	ErrValue error
	// LateStream: a cancellation during the connect latency makes the call return at
	// once, but with the established stream instead of an error.
	LateStream bool
	// BookmarkAtClose: when CloseAfter ends the stream, a BOOKMARK frame carrying
	// the version of the last event sent on this stream goes out first.
	BookmarkAtClose bool
	// Slow: virtual delay before each delivery
	Slow time.Duration
}

func NoWatchFault() WatchFault { return WatchFault{CloseAfter: -1} }

type ListCall struct {
	N        int
	Start    time.Time
	End      time.Time
	Opts     metav1.ListOptions
	RV       int // resourceVersion of the returned list (0 on failure)
	Snap     Snap
	Fault    ListFault
	Returned bool
	Err      error
}

type WatchCall struct {
	N         int
	Time      time.Time
	RV        string
	Fault     WatchFault
	Delivered int // events delivered on this stream
	LastRV    int // rv of the last event delivered (0 if none)
	Closed    bool
	Stopped   bool
	Streamed  bool // a stream was handed to the caller
	CtxDone   bool
	Failed    bool
}

type SEvent struct {
	RV   int
	Type watch.EventType
	Obj  runtime.Object
}

// Server is an in-memory API server for one resource kind.
type Server struct {
	mu      sync.Mutex
	NewList func() runtime.Object
	rv      int
	objs    map[string]runtime.Object
	log     []SEvent
	streams map[*stream]struct{}

	lists    []*ListCall
	watches  []*WatchCall
	inflight int
	MaxInfl  int

	// ListPlan / WatchPlan return the fault for the n-th (1-based) call.
	ListPlan  func(n int) ListFault
	WatchPlan func(n int) WatchFault

	// MaxLists > 0: the (MaxLists+1)-th and later List calls block until their context
	// ends and ListStorm is set.
	MaxLists  int
	ListStorm bool
	pages     map[string]pagedRest
	pageSeq   int
	// OnList is invoked (outside the lock) when a List call starts.
	OnList func(n int)

	core *Core // optional perturbation
}

func NewPodServer(core *Core) *Server {
	return NewServer(core, func() runtime.Object { return &corev1.PodList{} })
}

func NewServer(core *Core, newList func() runtime.Object) *Server {
	// MaxLists: no scenario of the harness comes near 20000 list calls; a library that
	// relists without pause would otherwise keep a bubble busy for ever at one instant
	return &Server{NewList: newList, objs: map[string]runtime.Object{}, streams: map[*stream]struct{}{}, core: core, MaxLists: 20000}
}

func okey(o runtime.Object) string {
	m, err := meta.Accessor(o)
	if err != nil {
		panic("harness: object without accessor")
	}
	return m.GetNamespace() + "/" + m.GetName()
}

// Put creates or updates obj (a deep copy is stored); returns the new rv.
func (s *Server) Put(obj runtime.Object) int {
	s.mu.Lock()
	s.rv++
	c := obj.DeepCopyObject()
	m, _ := meta.Accessor(c)
	m.SetResourceVersion(strconv.Itoa(s.rv))
	k := okey(c)
	typ := watch.Added
	if _, ok := s.objs[k]; ok {
		typ = watch.Modified
	}
	s.objs[k] = c
	s.log = append(s.log, SEvent{s.rv, typ, c})
	rv := s.rv
	s.wakeLocked()
	s.mu.Unlock()
	return rv
}

// Delete removes ns/name if present; returns the rv (0 if absent).
func (s *Server) Delete(ns, name string) int {
	s.mu.Lock()
	defer s.mu.Unlock()
	k := ns + "/" + name
	cur, ok := s.objs[k]
	if !ok {
		return 0
	}
	s.rv++
	c := cur.DeepCopyObject()
	m, _ := meta.Accessor(c)
	m.SetResourceVersion(strconv.Itoa(s.rv))
	delete(s.objs, k)
	s.log = append(s.log, SEvent{s.rv, watch.Deleted, c})
	s.wakeLocked()
	return s.rv
}

func (s *Server) wakeLocked() {
	for st := range s.streams {
		select {
		case st.wake <- struct{}{}:
		default:
		}
	}
}

func (s *Server) RV() int {
	s.mu.Lock()
	defer s.mu.Unlock()
	return s.rv
}

func (s *Server) Has(ns, name string) bool {
	s.mu.Lock()
	defer s.mu.Unlock()
	_, ok := s.objs[ns+"/"+name]
	return ok
}

// Objects returns the current content as metav1.Objects.
func (s *Server) Objects() []metav1.Object {
	s.mu.Lock()
	defer s.mu.Unlock()
	out := make([]metav1.Object, 0, len(s.objs))
	for _, o := range s.objs {
		m, _ := meta.Accessor(o)
		out = append(out, m)
	}
	return out
}

// LogObjectsAt returns the objects (as stored in the log) that a snapshot
// key -> rv refers to.
func (s *Server) LogObjectsAt(snap Snap) []metav1.Object {
	s.mu.Lock()
	defer s.mu.Unlock()
	var out []metav1.Object
	for _, rv := range snap {
		i := Atoi(rv) - 1
		if i >= 0 && i < len(s.log) {
			m, _ := meta.Accessor(s.log[i].Obj)
			out = append(out, m)
		}
	}
	return out
}

// LogCopy returns the event log.
func (s *Server) LogCopy() []SEvent {
	s.mu.Lock()
	defer s.mu.Unlock()
	return append([]SEvent(nil), s.log...)
}

func (s *Server) Lists() []ListCall {
	s.mu.Lock()
	defer s.mu.Unlock()
	out := make([]ListCall, len(s.lists))
	for i, l := range s.lists {
		out[i] = *l
	}
	return out
}

func (s *Server) Watches() []WatchCall {
	s.mu.Lock()
	defer s.mu.Unlock()
	out := make([]WatchCall, len(s.watches))
	for i, w := range s.watches {
		out[i] = *w
	}
	return out
}

func (s *Server) Inflight() int {
	s.mu.Lock()
	defer s.mu.Unlock()
	return s.inflight
}

// LastDelivery returns the virtual time of the last watch delivery.
func (s *Server) snapshotLocked() (runtime.Object, int, Snap) {
	items := make([]runtime.Object, 0, len(s.objs))
	snap := Snap{}
	for k, o := range s.objs {
		items = append(items, o.DeepCopyObject())
		m, _ := meta.Accessor(o)
		snap[k] = m.GetResourceVersion()
	}
	l := s.NewList()
	if err := meta.SetList(l, items); err != nil {
		panic(fmt.Sprintf("harness: SetList: %v", err))
	}
	la, _ := meta.ListAccessor(l)
	la.SetResourceVersion(strconv.Itoa(s.rv))
	return l, s.rv, snap
}

type notAnObject struct{ metav1.TypeMeta }

func (n *notAnObject) DeepCopyObject() runtime.Object { c := *n; return &c }

func (s *Server) List(ctx context.Context, opts metav1.ListOptions) (runtime.Object, error) {
	if opts.Continue != "" {
		s.mu.Lock()
		pr, ok := s.pages[opts.Continue]
		delete(s.pages, opts.Continue)
		s.mu.Unlock()
		if !ok {
			return nil, fmt.Errorf("continue token %q expired", opts.Continue)
		}
		l := s.NewList()
		items := pr.items
		if opts.Limit > 0 && int64(len(items)) > opts.Limit {
			rest := items[opts.Limit:]
			items = items[:opts.Limit]
			s.mu.Lock()
			s.pageSeq++
			tok := fmt.Sprintf("page-%d", s.pageSeq)
			s.pages[tok] = pagedRest{items: rest, rv: pr.rv}
			s.mu.Unlock()
			defer func() {
				if la, err := meta.ListAccessor(l); err == nil {
					la.SetContinue(tok)
				}
			}()
		}
		_ = meta.SetList(l, items)
		if la, err := meta.ListAccessor(l); err == nil {
			la.SetResourceVersion(pr.rv)
		}
		return l, nil
	}
	s.mu.Lock()
	n := len(s.lists) + 1
	var f ListFault
	if s.ListPlan != nil {
		f = s.ListPlan(n)
	}
	if s.MaxLists > 0 && n > s.MaxLists {
		// a list storm (calls without any pause in virtual time would keep the bubble
		// busy for ever): refuse to take part any longer, the case reports it
		s.ListStorm = true
		s.mu.Unlock()
		<-ctx.Done()
		return nil, ctx.Err()
	}
	call := &ListCall{N: n, Start: time.Now(), Opts: opts, Fault: f}
	s.lists = append(s.lists, call)
	s.inflight++
	if s.inflight > s.MaxInfl {
		s.MaxInfl = s.inflight
	}
	var l runtime.Object
	var rv int
	var snap Snap
	if !f.SnapshotLate {
		l, rv, snap = s.snapshotLocked()
	}
	onList := s.OnList
	s.mu.Unlock()

	if onList != nil {
		onList(n)
	}
	s.core.Point("client|List")

	finish := func(obj runtime.Object, err error) (runtime.Object, error) {
		s.mu.Lock()
		call.End = time.Now()
		call.Returned = true
		call.Err = err
		s.inflight--
		s.mu.Unlock()
		return obj, err
	}

	if f.Latency > 0 {
		t := time.NewTimer(f.Latency)
		select {
		case <-t.C:
		case <-ctx.Done():
			t.Stop()
			return finish(nil, ctx.Err())
		}
	}
	if err := ctx.Err(); err != nil {
		return finish(nil, err)
	}
	if f.SnapshotLate {
		s.mu.Lock()
		l, rv, snap = s.snapshotLocked()
		s.mu.Unlock()
	}

	switch f.Kind {
	case ListErr:
		if f.Err != nil {
			return finish(nil, f.Err)
		}
		return finish(nil, ErrInjected)
	case ListNonList:
		return finish(&corev1.Pod{}, nil)
	case ListNonObjects:
		// a meta.List whose items are not metav1.Object
		return finish(&corev1.List{ListMeta: metav1.ListMeta{ResourceVersion: strconv.Itoa(rv)},
			Items: []runtime.RawExtension{{Object: &notAnObject{}}}}, nil)
	case ListNoAccessor:
		return finish(&notAnObject{}, nil)
	case ListNilNil:
		return finish(nil, nil)
	case ListStatus:
		return finish(&metav1.Status{Status: "Failure", Message: "injected", Code: 500, ListMeta: metav1.ListMeta{ResourceVersion: strconv.Itoa(rv)}}, nil)
	case ListErrAndList:
		return finish(s.NewList(), ErrInjected)
	case ListHetero:
		items, _ := meta.ExtractList(l)
		hl := &corev1.List{ListMeta: metav1.ListMeta{ResourceVersion: strconv.Itoa(rv)}}
		for _, it := range items {
			hl.Items = append(hl.Items, runtime.RawExtension{Object: it})
		}
		hl.Items = append(hl.Items, runtime.RawExtension{Object: &corev1.ConfigMap{
			ObjectMeta: metav1.ObjectMeta{Namespace: "foreign", Name: "cm", ResourceVersion: strconv.Itoa(rv)}}})
		s.mu.Lock()
		call.RV, call.Snap = rv, snap
		s.mu.Unlock()
		return finish(hl, nil)
	}
	s.mu.Lock()
	call.RV, call.Snap = rv, snap
	s.mu.Unlock()
	if f.EmptyRV {
		if la, err := meta.ListAccessor(l); err == nil {
			la.SetResourceVersion("")
		}
	}
	// limit / continue, as an API server honours them: a page of the snapshot and a
	// token for the rest (the pages of one snapshot are kept under their token)
	if opts.Limit > 0 {
		if items, err := meta.ExtractList(l); err == nil && int64(len(items)) > opts.Limit {
			rest := items[opts.Limit:]
			_ = meta.SetList(l, items[:opts.Limit])
			if la, err := meta.ListAccessor(l); err == nil {
				s.mu.Lock()
				s.pageSeq++
				tok := fmt.Sprintf("page-%d", s.pageSeq)
				if s.pages == nil {
					s.pages = map[string]pagedRest{}
				}
				s.pages[tok] = pagedRest{items: rest, rv: la.GetResourceVersion()}
				s.mu.Unlock()
				la.SetContinue(tok)
			}
		}
	}
	return finish(l, nil)
}

type pagedRest struct {
	items []runtime.Object
	rv    string
}

type stream struct {
	s      *Server
	call   *WatchCall
	ch     chan watch.Event
	wake   chan struct{}
	stopch chan struct{}
	once   sync.Once
	pos    int // index into the log of the next event to consider
}

func (st *stream) ResultChan() <-chan watch.Event { return st.ch }
func (st *stream) Stop() {
	st.once.Do(func() {
		st.s.mu.Lock()
		st.call.Stopped = true
		st.s.mu.Unlock()
		close(st.stopch)
	})
}

func (s *Server) Watch(ctx context.Context, opts metav1.ListOptions) (watch.Interface, error) {
	s.mu.Lock()
	n := len(s.watches) + 1
	f := NoWatchFault()
	if s.WatchPlan != nil {
		f = s.WatchPlan(n)
	}
	call := &WatchCall{N: n, Time: time.Now(), RV: opts.ResourceVersion, Fault: f}
	s.watches = append(s.watches, call)
	s.mu.Unlock()

	s.core.Point("client|Watch")

	if f.Latency > 0 {
		t := time.NewTimer(f.Latency)
		select {
		case <-t.C:
		case <-ctx.Done():
			t.Stop()
			s.mu.Lock()
			call.CtxDone = true
			s.mu.Unlock()
			if !f.LateStream {
				return nil, ctx.Err()
			}
			// the connection was established when the cancellation arrived: the call
			// returns (as it must), but with the stream, which the caller has to stop
		}
	}
	if f.Block {
		<-ctx.Done()
		s.mu.Lock()
		call.CtxDone = true
		s.mu.Unlock()
		return nil, ctx.Err()
	}
	if f.Err {
		s.mu.Lock()
		call.Failed = true
		s.mu.Unlock()
		if f.ErrValue != nil {
			return nil, f.ErrValue
		}
		return nil, ErrInjectedWatch
	}

	from := -1 // no resourceVersion: start at the most recent state
	if opts.ResourceVersion != "" {
		v, err := strconv.Atoi(opts.ResourceVersion)
		if err != nil {
			return nil, fmt.Errorf("bad resource version %q", opts.ResourceVersion)
		}
		from = v
	}
	st := &stream{s: s, call: call, ch: make(chan watch.Event), wake: make(chan struct{}, 1), stopch: make(chan struct{})}
	s.mu.Lock()
	// log[i].RV == i+1 : first event with RV > from is log[from]
	if from < 0 {
		from = len(s.log)
	}
	st.pos = from
	if st.pos > len(s.log) {
		st.pos = len(s.log)
	}
	s.streams[st] = struct{}{}
	call.Streamed = true
	s.mu.Unlock()
	go st.feed(ctx)
	return st, nil
}

func (st *stream) send(ctx context.Context, ev watch.Event) bool {
	select {
	case st.ch <- ev:
		return true
	case <-st.stopch:
		return false
	case <-ctx.Done():
		st.s.mu.Lock()
		st.call.CtxDone = true
		st.s.mu.Unlock()
		return false
	}
}

func (st *stream) feed(ctx context.Context) {
	s := st.s
	f := st.call.Fault
	defer func() {
		s.mu.Lock()
		delete(s.streams, st)
		st.call.Closed = true
		s.mu.Unlock()
		close(st.ch)
	}()
	idx := 0 // delivery index
	for {
		if f.CloseAfter >= 0 && idx >= f.CloseAfter {
			if f.BookmarkAtClose {
				// what an API server may do: a bookmark carrying the version of the last
				// event it has sent on this stream, right before the stream ends
				s.mu.Lock()
				last := st.call.LastRV
				s.mu.Unlock()
				if last > 0 {
					st.send(ctx, BookmarkFrame(last))
				}
			}
			return
		}
		s.mu.Lock()
		var ev *SEvent
		if st.pos < len(s.log) {
			e := s.log[st.pos]
			ev = &e
			st.pos++
		}
		s.mu.Unlock()
		if ev == nil {
			select {
			case <-st.wake:
				continue
			case <-st.stopch:
				return
			case <-ctx.Done():
				s.mu.Lock()
				st.call.CtxDone = true
				s.mu.Unlock()
				return
			}
		}
		for _, fr := range f.Frames[idx] {
			if !st.send(ctx, fr) {
				return
			}
		}
		if f.Slow > 0 {
			t := time.NewTimer(f.Slow)
			select {
			case <-t.C:
			case <-st.stopch:
				t.Stop()
				return
			case <-ctx.Done():
				t.Stop()
				return
			}
		}
		if !f.Drop[idx] {
			n := 1
			if f.Dup[idx] {
				n = 2
			}
			for i := 0; i < n; i++ {
				if !st.send(ctx, watch.Event{Type: ev.Type, Object: ev.Obj.DeepCopyObject()}) {
					return
				}
			}
			s.mu.Lock()
			st.call.Delivered++
			st.call.LastRV = ev.RV
			s.mu.Unlock()
		}
		idx++
	}
}

// UnstoppedStreams counts the streams handed to the caller whose Stop() was never called.
func (s *Server) UnstoppedStreams() int {
	s.mu.Lock()
	defer s.mu.Unlock()
	n := 0
	for _, c := range s.watches {
		if c.Streamed && !c.Stopped {
			n++
		}
	}
	return n
}

// ActiveStreams is the number of open watch streams.
func (s *Server) ActiveStreams() int {
	s.mu.Lock()
	defer s.mu.Unlock()
	return len(s.streams)
}

// Frame helpers -------------------------------------------------------------

func StatusFrame() watch.Event {
	return watch.Event{Type: watch.Error, Object: &metav1.Status{Status: "Failure", Message: "injected", Code: 410}}
}
func BookmarkFrame(rv int) watch.Event {
	return watch.Event{Type: watch.Bookmark, Object: &corev1.Pod{ObjectMeta: metav1.ObjectMeta{ResourceVersion: strconv.Itoa(rv)}}}
}
func UnknownFrame() watch.Event {
	return watch.Event{Type: watch.EventType("WEIRD"), Object: &corev1.Pod{ObjectMeta: metav1.ObjectMeta{Namespace: "x", Name: "weird", ResourceVersion: "1"}}}
}
func ForeignFrame(rv int) watch.Event {
	return watch.Event{Type: watch.Added, Object: &corev1.ConfigMap{ObjectMeta: metav1.ObjectMeta{Namespace: "foreign", Name: "cm", ResourceVersion: strconv.Itoa(rv)}}}
}
