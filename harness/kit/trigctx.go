package kit

import (
	"context"
	"sync/atomic"
)

// TrigCtx is a cancellable context that can be told to become cancelled at
// the very moment the code under test consults it for the n-th time (Done()
// or Err()).  A context may be cancelled at any instant, in particular right
// before the library looks at it; with virtual time that coincidence never
// arises by itself (no time passes between a cancel() and its delivery), so
// it is produced on purpose, the same way logger points are used as triggers.
// Value() delegates to the inner context, so the standard library still
// recognises the inner *cancelCtx and derived contexts cost no goroutine.
type TrigCtx struct {
	context.Context
	cancel context.CancelFunc
	calls  atomic.Int64
	at     atomic.Int64
	fired  atomic.Bool
	what   atomic.Value // string: the call that fired
}

func NewTrigCtx() *TrigCtx {
	ctx, cancel := context.WithCancel(context.Background())
	return &TrigCtx{Context: ctx, cancel: cancel}
}

// CancelAtCall arranges for the context to be cancelled inside its n-th
// Done()/Err() call (1-based), before that call returns.
func (c *TrigCtx) CancelAtCall(n int) { c.at.Store(int64(n)) }

func (c *TrigCtx) Cancel()     { c.cancel() }
func (c *TrigCtx) Calls() int  { return int(c.calls.Load()) }
func (c *TrigCtx) Fired() bool { return c.fired.Load() }
func (c *TrigCtx) FiredIn() string {
	s, _ := c.what.Load().(string)
	return s
}

func (c *TrigCtx) hit(what string) {
	n := c.calls.Add(1)
	if at := c.at.Load(); at > 0 && n == at {
		c.what.Store(what)
		c.fired.Store(true)
		c.cancel()
	}
}

func (c *TrigCtx) Done() <-chan struct{} {
	c.hit("ctx.Done")
	return c.Context.Done()
}

func (c *TrigCtx) Err() error {
	c.hit("ctx.Err")
	return c.Context.Err()
}
