package kit

import (
	"context"
	"sync"
	"sync/atomic"
	"time"
)

// TrigCtx is a cancellable context that can be told to become cancelled at
// the very moment the code under test consults it for the n-th time (Done()
// or Err()).  A context may be cancelled at any instant, in particular right
// before the library looks at it; with virtual time that coincidence never
// arises by itself (no time passes between a cancel() and its delivery), so
// it is produced on purpose, the same way logger points are used as triggers.
// Value() delegates to the inner context, so the standard library still
// recognises the inner *cancelCtx and derived contexts cost no goroutine.
type TrigCtx struct {
	context.Context
	cancel context.CancelFunc
	calls  atomic.Int64
	at     atomic.Int64
	fired  atomic.Bool
	what   atomic.Value // string: the call that fired
}

func NewTrigCtx() *TrigCtx {
	ctx, cancel := context.WithCancel(context.Background())
	return &TrigCtx{Context: ctx, cancel: cancel}
}

// CancelAtCall arranges for the context to be cancelled inside its n-th
// Done()/Err() call (1-based), before that call returns.
func (c *TrigCtx) CancelAtCall(n int) { c.at.Store(int64(n)) }

func (c *TrigCtx) Cancel()     { c.cancel() }
func (c *TrigCtx) Calls() int  { return int(c.calls.Load()) }
func (c *TrigCtx) Fired() bool { return c.fired.Load() }
func (c *TrigCtx) FiredIn() string {
	s, _ := c.what.Load().(string)
	return s
}

func (c *TrigCtx) hit(what string) {
	n := c.calls.Add(1)
	if at := c.at.Load(); at > 0 && n == at {
		c.what.Store(what)
		c.fired.Store(true)
		c.cancel()
	}
}

func (c *TrigCtx) Done() <-chan struct{} {
	c.hit("ctx.Done")
	return c.Context.Done()
}

func (c *TrigCtx) Err() error {
	c.hit("ctx.Err")
	return c.Context.Err()
}

// OpaqueCtx is a hand-written context.Context: it is not one of the standard
// library's own context types and has its own Done channel, so a context
// derived from it (context.WithCancel etc.) costs one watcher goroutine inside
// package context that lives until the DERIVED context is cancelled or this
// one is.  Code that forgets to release a derived context leaks nothing
// visible with a standard parent; with a parent like this it leaks a goroutine
// per derivation (request-scoped framework contexts, merged contexts and
// older signal contexts are of this kind).
type OpaqueCtx struct {
	done chan struct{}
	once sync.Once
}

func NewOpaqueCtx() *OpaqueCtx { return &OpaqueCtx{done: make(chan struct{})} }

func (c *OpaqueCtx) Deadline() (time.Time, bool) { return time.Time{}, false }
func (c *OpaqueCtx) Done() <-chan struct{}       { return c.done }
func (c *OpaqueCtx) Err() error {
	select {
	case <-c.done:
		return context.Canceled
	default:
		return nil
	}
}
func (c *OpaqueCtx) Value(interface{}) interface{} { return nil }
func (c *OpaqueCtx) Cancel()                       { c.once.Do(func() { close(c.done) }) }
