package kit

import (
	"fmt"
	"sort"
	"strconv"
	"strings"

	corev1 "k8s.io/api/core/v1"
	metav1 "k8s.io/apimachinery/pkg/apis/meta/v1"
)

// Pod builds a pod with the given identity, resource version and labels.
func Pod(ns, name, rv string, labels map[string]string) *corev1.Pod {
	var l map[string]string
	if labels != nil {
		l = make(map[string]string, len(labels))
		for k, v := range labels {
			l[k] = v
		}
	}
	return &corev1.Pod{
		ObjectMeta: metav1.ObjectMeta{Namespace: ns, Name: name, ResourceVersion: rv, Labels: l},
	}
}

func Key(o metav1.Object) string { return o.GetNamespace() + "/" + o.GetName() }

// Snap is a canonical view of a set of objects: key -> resourceVersion.
type Snap map[string]string

func SnapOf(list []metav1.Object) Snap {
	s := Snap{}
	for _, o := range list {
		s[Key(o)] = o.GetResourceVersion()
	}
	return s
}

// SnapDup reports whether list holds two entries with the same key.
func SnapDup(list []metav1.Object) bool {
	seen := map[string]bool{}
	for _, o := range list {
		k := Key(o)
		if seen[k] {
			return true
		}
		seen[k] = true
	}
	return false
}

func (s Snap) Equal(o Snap) bool {
	if len(s) != len(o) {
		return false
	}
	for k, v := range s {
		if ov, ok := o[k]; !ok || ov != v {
			return false
		}
	}
	return true
}

func (s Snap) String() string {
	keys := make([]string, 0, len(s))
	for k := range s {
		keys = append(keys, k)
	}
	sort.Strings(keys)
	var b strings.Builder
	b.WriteString("{")
	for i, k := range keys {
		if i > 0 {
			b.WriteString(" ")
		}
		fmt.Fprintf(&b, "%s@%s", k, s[k])
	}
	b.WriteString("}")
	return b.String()
}

func (s Snap) Clone() Snap {
	c := Snap{}
	for k, v := range s {
		c[k] = v
	}
	return c
}

func Atoi(s string) int {
	n, err := strconv.Atoi(s)
	if err != nil {
		return -1 << 30
	}
	return n
}

// LabelsString renders a label map canonically.
func LabelsString(m map[string]string) string {
	keys := make([]string, 0, len(m))
	for k := range m {
		keys = append(keys, k)
	}
	sort.Strings(keys)
	var b strings.Builder
	for i, k := range keys {
		if i > 0 {
			b.WriteString(",")
		}
		b.WriteString(k + "=" + m[k])
	}
	return b.String()
}

// Rng is a small deterministic PRNG (splitmix64) so case lists are a pure
// function of the seed, independent of math/rand versions.
type Rng struct{ s uint64 }

func NewRng(seed uint64) *Rng { return &Rng{s: seed*0x9E3779B97F4A7C15 + 0x1234567} }

func (r *Rng) U64() uint64 {
	r.s += 0x9E3779B97F4A7C15
	z := r.s
	z = (z ^ (z >> 30)) * 0xBF58476D1CE4E5B9
	z = (z ^ (z >> 27)) * 0x94D049BB133111EB
	return z ^ (z >> 31)
}
func (r *Rng) Intn(n int) int {
	if n <= 0 {
		return 0
	}
	return int(r.U64() % uint64(n))
}
func (r *Rng) Bool() bool           { return r.U64()&1 == 1 }
func (r *Rng) Chance(p int) bool    { return r.Intn(100) < p }
func (r *Rng) Fork(tag uint64) *Rng { return NewRng(r.U64() ^ tag*0x2545F4914F6CDD1D) }

func Mix(a, b uint64) uint64 {
	z := a ^ (b+0x9E3779B97F4A7C15)*0xBF58476D1CE4E5B9
	z = (z ^ (z >> 30)) * 0xBF58476D1CE4E5B9
	z = (z ^ (z >> 27)) * 0x94D049BB133111EB
	return z ^ (z >> 31)
}

func HashStr(s string) uint64 {
	var h uint64 = 14695981039346656037
	for i := 0; i < len(s); i++ {
		h ^= uint64(s[i])
		h *= 1099511628211
	}
	return h
}
