package kit

import (
	"regexp"
	"runtime"
	"sort"
	"strings"
)

// Goroutine is one entry of a goroutine dump.
type Goroutine struct {
	Header string
	Top    string // innermost library function
	Create string // "created by" function
	Text   string
}

var bubbleRe = regexp.MustCompile(`synctest bubble \d+`)
var libRe = regexp.MustCompile(`github\.com/boz/(kcache|go-lifecycle)`)

func dumpAll() string {
	n := 1 << 20
	for {
		buf := make([]byte, n)
		m := runtime.Stack(buf, true)
		if m < n {
			return string(buf[:m])
		}
		n *= 2
	}
}

// Census returns the goroutines that execute, or were created by, library
// code (kcache or go-lifecycle).  Harness goroutines blocked inside a library
// call are included: that is a hung API call.
func Census() []Goroutine {
	var out []Goroutine
	all := strings.Split(dumpAll(), "\n\n")
	bubble := ""
	for _, g := range all {
		g = strings.TrimSpace(g)
		if i := strings.Index(g, "\n"); i > 0 && strings.Contains(g[:i], "[running") {
			if m := bubbleRe.FindString(g[:i]); m != "" {
				bubble = m
			}
			break
		}
	}
	for _, g := range all {
		g = strings.TrimSpace(g)
		if g == "" || !libRe.MatchString(g) {
			continue
		}
		lines := strings.Split(g, "\n")
		if strings.Contains(lines[0], "[running") {
			continue // the caller itself
		}
		if bubble != "" && bubbleRe.FindString(lines[0]) != bubble {
			continue // left over from an earlier (abandoned) bubble
		}
		gr := Goroutine{Header: lines[0], Text: g}
		for i := 1; i < len(lines); i++ {
			ln := lines[i]
			if strings.HasPrefix(ln, "created by ") {
				gr.Create = fnName(strings.TrimPrefix(ln, "created by "))
				continue
			}
			if strings.HasPrefix(ln, "\t") {
				continue
			}
			if gr.Top == "" && libRe.MatchString(ln) {
				gr.Top = fnName(ln)
			}
		}
		out = append(out, gr)
	}
	return out
}

func fnName(ln string) string {
	if i := strings.Index(ln, " in goroutine"); i >= 0 {
		ln = ln[:i]
	}
	if i := strings.LastIndex(ln, "("); i > 0 {
		ln = ln[:i]
	}
	return strings.TrimSpace(ln)
}

// CtxWatchers returns the goroutines of the current bubble (or of the process
// outside a bubble) that package context started to watch a parent context it
// cannot see through (propagateCancel).  Each exists on behalf of whoever
// derived a context from such a parent and lives until the derived context is
// cancelled.
func CtxWatchers() []Goroutine {
	var out []Goroutine
	all := strings.Split(dumpAll(), "\n\n")
	bubble := ""
	for _, g := range all {
		g = strings.TrimSpace(g)
		if i := strings.Index(g, "\n"); i > 0 && strings.Contains(g[:i], "[running") {
			bubble = bubbleRe.FindString(g[:i])
			break
		}
	}
	for _, g := range all {
		g = strings.TrimSpace(g)
		if !strings.Contains(g, "context.(*cancelCtx).propagateCancel.func") {
			continue
		}
		lines := strings.Split(g, "\n")
		if bubbleRe.FindString(lines[0]) != bubble {
			continue
		}
		out = append(out, Goroutine{Header: lines[0], Top: "context.propagateCancel", Create: "context.WithCancel", Text: g})
	}
	return out
}

// CensusKeys summarises a census as a sorted multiset of "top <- creator".
func CensusKeys(gs []Goroutine) []string {
	out := make([]string, 0, len(gs))
	for _, g := range gs {
		out = append(out, g.Top+" <- "+g.Create)
	}
	sort.Strings(out)
	return out
}

func CensusText(gs []Goroutine, max int) string {
	var b strings.Builder
	for i, g := range gs {
		if i >= max {
			b.WriteString("...\n")
			break
		}
		b.WriteString(g.Text)
		b.WriteString("\n\n")
	}
	return b.String()
}

// DumpAll returns the full goroutine dump (for witnesses).
func DumpAll() string { return dumpAll() }
