package kit

import (
	"fmt"
	"sort"
	"strings"

	"github.com/boz/kcache/filter"
	"github.com/boz/kcache/nsname"
	metav1 "k8s.io/apimachinery/pkg/apis/meta/v1"
	"k8s.io/apimachinery/pkg/labels"
)

// Term is a filter term: from it the harness builds the kcache filter through
// the public constructors (Build) and evaluates an independently written
// interpreter (Eval).
type Term struct {
	Op     string // null all not and or nsname labels lsel selector fn custom
	Kids   []*Term
	IDs    []nsname.NSName
	Labels map[string]string
	LSel   *metav1.LabelSelector
	Fn     func(metav1.Object) bool
	// custom atoms (typed filters)
	Name    string
	BuildFn func() filter.Filter
	EvalFn  func(metav1.Object) bool
}

func TNull() *Term                        { return &Term{Op: "null"} }
func TAll() *Term                         { return &Term{Op: "all"} }
func TNot(k *Term) *Term                  { return &Term{Op: "not", Kids: []*Term{k}} }
func TAnd(k ...*Term) *Term               { return &Term{Op: "and", Kids: k} }
func TOr(k ...*Term) *Term                { return &Term{Op: "or", Kids: k} }
func TNSName(ids ...nsname.NSName) *Term  { return &Term{Op: "nsname", IDs: ids} }
func TLabels(m map[string]string) *Term   { return &Term{Op: "labels", Labels: m} }
func TLSel(s *metav1.LabelSelector) *Term { return &Term{Op: "lsel", LSel: s} }
func TSelector(m map[string]string) *Term { return &Term{Op: "selector", Labels: m} }
func TFN(name string, fn func(metav1.Object) bool) *Term {
	return &Term{Op: "fn", Name: name, Fn: fn}
}
func TCustom(name string, build func() filter.Filter, eval func(metav1.Object) bool) *Term {
	return &Term{Op: "custom", Name: name, BuildFn: build, EvalFn: eval}
}

// Build constructs the library filter.  Every call builds a fresh value.
func (t *Term) Build() filter.Filter {
	switch t.Op {
	case "null":
		return filter.Null()
	case "all":
		return filter.All()
	case "not":
		return filter.Not(t.Kids[0].Build())
	case "and":
		ks := make([]filter.Filter, len(t.Kids))
		for i, k := range t.Kids {
			ks[i] = k.Build()
		}
		return filter.And(ks...)
	case "or":
		ks := make([]filter.Filter, len(t.Kids))
		for i, k := range t.Kids {
			ks[i] = k.Build()
		}
		return filter.Or(ks...)
	case "nsname":
		ids := append([]nsname.NSName(nil), t.IDs...)
		return filter.NSName(ids...)
	case "labels":
		return filter.Labels(copyMap(t.Labels))
	case "selector":
		return filter.Selector(labels.SelectorFromSet(copyMap(t.Labels)))
	case "lsel":
		if t.LSel == nil {
			return filter.LabelSelector(nil)
		}
		return filter.LabelSelector(t.LSel.DeepCopy())
	case "fn":
		return filter.FN(t.Fn)
	case "custom":
		return t.BuildFn()
	}
	panic("harness: unknown term " + t.Op)
}

func copyMap(m map[string]string) map[string]string {
	if m == nil {
		return nil
	}
	c := make(map[string]string, len(m))
	for k, v := range m {
		c[k] = v
	}
	return c
}

// Eval is the reference semantics.
func (t *Term) Eval(o metav1.Object) bool {
	switch t.Op {
	case "null":
		return true
	case "all":
		return false
	case "not":
		return !t.Kids[0].Eval(o)
	case "and":
		for _, k := range t.Kids {
			if !k.Eval(o) {
				return false
			}
		}
		return true
	case "or":
		for _, k := range t.Kids {
			if k.Eval(o) {
				return true
			}
		}
		return false
	case "nsname":
		for _, id := range t.IDs {
			nsOK := id.Namespace == "" || id.Namespace == o.GetNamespace()
			nameOK := id.Name == "" || id.Name == o.GetName()
			if id.Namespace == "" && id.Name == "" {
				continue // outside the contract; generators never produce it
			}
			if nsOK && nameOK {
				return true
			}
		}
		return false
	case "labels", "selector":
		ol := o.GetLabels()
		for k, v := range t.Labels {
			if ov, ok := ol[k]; !ok || ov != v {
				return false
			}
		}
		return true
	case "lsel":
		return RefLabelSelector(t.LSel, o.GetLabels())
	case "fn":
		return t.Fn(o)
	case "custom":
		return t.EvalFn(o)
	}
	panic("harness: unknown term " + t.Op)
}

// RefLabelSelector is an independent implementation of Kubernetes
// label-selector matching.  A nil selector matches nothing, an empty one
// everything.
func RefLabelSelector(s *metav1.LabelSelector, ol map[string]string) bool {
	if s == nil {
		return false
	}
	for k, v := range s.MatchLabels {
		if ov, ok := ol[k]; !ok || ov != v {
			return false
		}
	}
	for _, e := range s.MatchExpressions {
		ov, has := ol[e.Key]
		in := false
		for _, v := range e.Values {
			if v == ov {
				in = true
			}
		}
		switch e.Operator {
		case metav1.LabelSelectorOpIn:
			if !has || !in {
				return false
			}
		case metav1.LabelSelectorOpNotIn:
			if has && in {
				return false
			}
		case metav1.LabelSelectorOpExists:
			if !has {
				return false
			}
		case metav1.LabelSelectorOpDoesNotExist:
			if has {
				return false
			}
		}
	}
	return true
}

// Comparable reports whether the built filter is expected to implement
// ComparableFilter all the way down.
func (t *Term) Comparable() bool {
	if t.Op == "fn" {
		return false
	}
	for _, k := range t.Kids {
		if !k.Comparable() {
			return false
		}
	}
	return true
}

func (t *Term) Depth() int {
	d := 0
	for _, k := range t.Kids {
		if kd := k.Depth(); kd > d {
			d = kd
		}
	}
	return d + 1
}

func (t *Term) String() string {
	switch t.Op {
	case "null", "all":
		return t.Op
	case "not", "and", "or":
		ks := make([]string, len(t.Kids))
		for i, k := range t.Kids {
			ks[i] = k.String()
		}
		return t.Op + "(" + strings.Join(ks, ",") + ")"
	case "nsname":
		ks := make([]string, len(t.IDs))
		for i, id := range t.IDs {
			ks[i] = id.Namespace + "/" + id.Name
		}
		return "nsname(" + strings.Join(ks, ",") + ")"
	case "labels", "selector":
		return t.Op + "(" + LabelsString(t.Labels) + ")"
	case "lsel":
		return "lsel(" + LSelString(t.LSel) + ")"
	case "fn", "custom":
		return t.Op + ":" + t.Name
	}
	return "?"
}

func LSelString(s *metav1.LabelSelector) string {
	if s == nil {
		return "nil"
	}
	parts := []string{}
	if s.MatchLabels != nil {
		parts = append(parts, "ml{"+LabelsString(s.MatchLabels)+"}")
	}
	for _, e := range s.MatchExpressions {
		vs := append([]string(nil), e.Values...)
		sort.Strings(vs)
		parts = append(parts, fmt.Sprintf("%s %s [%s]", e.Key, e.Operator, strings.Join(vs, " ")))
	}
	return strings.Join(parts, ";")
}

// Accepted returns the snapshot of the objects of list accepted by t.
func (t *Term) Accepted(list []metav1.Object) Snap {
	s := Snap{}
	for _, o := range list {
		if t.Eval(o) {
			s[Key(o)] = o.GetResourceVersion()
		}
	}
	return s
}
