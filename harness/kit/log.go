package kit

import (
	"runtime"
	"sort"
	"strings"
	"sync"
	"sync/atomic"
	"testing/synctest"
	"time"

	logutil "github.com/boz/go-logutil"
)

// Plan decides what a collaborator does at a perturbation point.
type Plan struct {
	Seed     uint64
	PYield   int           // per-mille chance of runtime.Gosched()
	PSleep   int           // per-mille chance of a virtual sleep
	MaxSleep time.Duration // upper bound of an injected sleep (<= 1ms)
	// Targets: point substring -> always sleep that long at that point.
	Targets map[string]time.Duration
}

// Core is the shared state of the recording/perturbing collaborators of one
// case (schedule mode).  It is never used in race mode.
type Core struct {
	mu       sync.Mutex
	seq      int
	sig      uint64
	points   map[string]int
	overruns int
	warns    []string
	sleepers atomic.Int32
	injected atomic.Int64 // total injected virtual sleep, ns
	plan     *Plan

	trigAt int
	trigFn func()
	trigPt string // point at which the trigger fired
}

func NewCore(plan *Plan) *Core {
	c := &Core{points: map[string]int{}, plan: plan, sig: 14695981039346656037}
	coresMu.Lock()
	cores = append(cores, c)
	coresMu.Unlock()
	return c
}

// The cores created since the last TakeCores call (one case runs at a time in
// a process): the framework reports their schedule signatures and the number
// of perturbation points they executed as evidence of what was explored.
var (
	coresMu sync.Mutex
	cores   []*Core
)

func TakeCores() []*Core {
	coresMu.Lock()
	defer coresMu.Unlock()
	out := cores
	cores = nil
	return out
}

// TriggerAt arranges for fn to be started (in its own goroutine) from inside
// the n-th perturbation point (1-based).
func (c *Core) TriggerAt(n int, fn func()) {
	c.mu.Lock()
	c.trigAt, c.trigFn = n, fn
	c.mu.Unlock()
}

func (c *Core) Seq() int {
	if c == nil {
		return 0
	}
	c.mu.Lock()
	defer c.mu.Unlock()
	return c.seq
}
func (c *Core) Overruns() int {
	if c == nil {
		return 0
	}
	c.mu.Lock()
	defer c.mu.Unlock()
	return c.overruns
}
func (c *Core) Signature() uint64 {
	if c == nil {
		return 0
	}
	c.mu.Lock()
	defer c.mu.Unlock()
	return c.sig
}
func (c *Core) TriggerPoint() string {
	if c == nil {
		return ""
	}
	c.mu.Lock()
	defer c.mu.Unlock()
	return c.trigPt
}
func (c *Core) Injected() time.Duration {
	if c == nil {
		return 0
	}
	return time.Duration(c.injected.Load())
}

// Points returns the perturbation points hit, sorted.
func (c *Core) Points() []string {
	if c == nil {
		return nil
	}
	c.mu.Lock()
	defer c.mu.Unlock()
	out := make([]string, 0, len(c.points))
	for k := range c.points {
		out = append(out, k)
	}
	sort.Strings(out)
	return out
}
func (c *Core) PointCount(sub string) int {
	if c == nil {
		return 0
	}
	c.mu.Lock()
	defer c.mu.Unlock()
	n := 0
	for k, v := range c.points {
		if strings.Contains(k, sub) {
			n += v
		}
	}
	return n
}

// Point is called by every collaborator at every perturbation point.
func (c *Core) Point(pt string) {
	if c == nil {
		return
	}
	c.mu.Lock()
	c.seq++
	occ := c.points[pt]
	c.points[pt] = occ + 1
	h := HashStr(pt)
	c.sig = (c.sig ^ h) * 1099511628211
	var fire func()
	if c.trigFn != nil && c.seq == c.trigAt {
		fire = c.trigFn
		c.trigFn = nil
		c.trigPt = pt
	}
	var sleep time.Duration
	yield := false
	if p := c.plan; p != nil {
		for sub, d := range p.Targets {
			if strings.Contains(pt, sub) {
				sleep = d
			}
		}
		if sleep == 0 && (p.PYield > 0 || p.PSleep > 0) {
			r := Mix(Mix(p.Seed, h), uint64(occ))
			v := int(r % 1000)
			switch {
			case v < p.PSleep:
				max := p.MaxSleep
				if max <= 0 {
					max = time.Millisecond
				}
				sleep = time.Duration(1 + (r>>20)%uint64(max))
			case v < p.PSleep+p.PYield:
				yield = true
			}
		}
	}
	c.mu.Unlock()

	if fire != nil {
		go fire()
		runtime.Gosched()
	}
	if sleep > 0 {
		c.Sleep(sleep)
	} else if yield {
		runtime.Gosched()
	}
}

// Sleep is an injected virtual sleep that the barrier knows about.
func (c *Core) Sleep(d time.Duration) {
	if c == nil {
		time.Sleep(d)
		return
	}
	c.sleepers.Add(1)
	c.injected.Add(int64(d))
	time.Sleep(d)
	c.sleepers.Add(-1)
}

// Barrier waits until every other goroutine of the bubble is durably blocked
// and none of them is parked in an injected sleep.
func (c *Core) Barrier() {
	for i := 0; ; i++ {
		synctest.Wait()
		if c == nil || c.sleepers.Load() == 0 {
			return
		}
		time.Sleep(time.Millisecond)
	}
}

func (c *Core) noteOverrun(msg string) {
	c.mu.Lock()
	c.overruns++
	if len(c.warns) < 8 {
		c.warns = append(c.warns, msg)
	}
	c.mu.Unlock()
}

// Log is the recording, perturbing logger (schedule mode).
type Log struct {
	core *Core
	comp string
}

func NewLog(core *Core) *Log { return &Log{core: core} }

var _ logutil.Log = (*Log)(nil)

func (l *Log) WithComponent(name string) logutil.Log {
	c := name
	if l.comp != "" {
		c = l.comp + "/" + name
	}
	return &Log{core: l.core, comp: c}
}

func (l *Log) pt(level, format string) {
	if l.core == nil {
		// race mode: no shared state at all
		runtime.Gosched()
		return
	}
	if strings.Contains(format, "overrun") || strings.Contains(format, "buffer full") {
		l.core.noteOverrun(l.comp + ": " + format)
	}
	l.core.Point(l.comp + "|" + format)
}

func (l *Log) Trace(string, ...interface{}) string { return "" }
func (l *Log) Un(string)                           {}
func (l *Log) Debugf(f string, _ ...interface{})   { l.pt("D", f) }
func (l *Log) Infof(f string, _ ...interface{})    { l.pt("I", f) }
func (l *Log) Warnf(f string, _ ...interface{})    { l.pt("W", f) }
func (l *Log) Errorf(f string, _ ...interface{})   { l.pt("E", f) }
func (l *Log) Fatalf(f string, _ ...interface{})   { l.pt("F", f) }
func (l *Log) ErrWarn(err error, f string, _ ...interface{}) error {
	l.pt("W", f)
	return err
}
func (l *Log) ErrFatal(err error, f string, _ ...interface{}) error {
	l.pt("F", f)
	return err
}
func (l *Log) Err(err error, f string, _ ...interface{}) error {
	l.pt("E", f)
	return err
}

// NullLog shares no state at all: the collaborator for race mode.
type NullLog struct{ Yield bool }

var _ logutil.Log = NullLog{}

func (n NullLog) y() {
	if n.Yield {
		runtime.Gosched()
	}
}
func (n NullLog) WithComponent(string) logutil.Log                     { return n }
func (n NullLog) Trace(string, ...interface{}) string                  { return "" }
func (n NullLog) Un(string)                                            {}
func (n NullLog) Debugf(string, ...interface{})                        { n.y() }
func (n NullLog) Infof(string, ...interface{})                         { n.y() }
func (n NullLog) Warnf(string, ...interface{})                         { n.y() }
func (n NullLog) Errorf(string, ...interface{})                        { n.y() }
func (n NullLog) Fatalf(string, ...interface{})                        { n.y() }
func (n NullLog) ErrWarn(err error, _ string, _ ...interface{}) error  { return err }
func (n NullLog) ErrFatal(err error, _ string, _ ...interface{}) error { return err }
func (n NullLog) Err(err error, _ string, _ ...interface{}) error      { return err }
